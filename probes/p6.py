import sys
sys.path.insert(0,'/tmp/probe/mut'); sys.path.insert(0,'/tmp/probe')
import pstruct
import umsgpack_m as m
import supp.umsgpack as u
m.struct = pstruct
u.struct = pstruct
class W:
    def __init__(self): self.parts = []
    def write(self, b): self.parts.append(b)
class R:
    def __init__(self, parts):
        self.data = b''.join(parts); self.pos = 0
    def read(self, n):
        r = self.data[self.pos:self.pos+n]; self.pos += len(r); return r
def rt(mod, x):
    w = W(); mod.pack(x, w)
    return mod.unpack(R(w.parts))
def rt_mut(x: int) -> bool:
    """
    pre: -2**63 <= x < 2**64
    post: _
    """
    return rt(m, x) == x
def rt_real(x: int) -> bool:
    """
    pre: -2**63 <= x < 2**64
    post: _
    """
    return rt(u, x) == x
