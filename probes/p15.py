from crosshair.tracers import NoTracing
import p11   # reuse SRC/PROG/supp_sets (module-level code only)
UNB = -1
class Stop(Exception): pass
def exec_(node, env, names, dec, events):
    k = node[0]
    if k == 'seq':
        for s in node[1]: exec_(s, env, names, dec, events)
    elif k == 'bind':
        env[names['B%d' % node[1]]] = node[1]
    elif k == 'read':
        events.append((node[1], env.get(names['R%d' % node[1]], UNB)))
    elif k == 'if':
        exec_(node[1] if dec.next_bool() else node[2], env, names, dec, events)
    elif k == 'for':
        t = dec.next_trips()
        for _ in range(t):
            env[names['B%d' % node[1]]] = node[1]
            exec_(node[2], env, names, dec, events)
        exec_(node[3], env, names, dec, events)
    elif k == 'try':
        r = dec.next_raise()        # 0 none, 1 before first stmt, 2 after last
        if r == 1:
            exec_(node[2], env, names, dec, events)
        else:
            exec_(node[1], env, names, dec, events)
            if r == 2: exec_(node[2], env, names, dec, events)
class Dec:
    def __init__(self, bools, trips, raises): self.b = list(bools); self.t = list(trips); self.r = list(raises)
    def next_bool(self): return self.b.pop(0)
    def next_trips(self): return self.t.pop(0)
    def next_raise(self): return self.r.pop(0)

def check(b0: int, b1: int, b2: int, b3: int, b4: int, r0: int, r1: int, r2: int,
          d1: bool, d2: bool, trips: int, rz: int) -> bool:
    """
    pre: 0<=b0<2 and 0<=b1<2 and 0<=b2<2 and 0<=b3<2 and 0<=b4<2 and 0<=r0<2 and 0<=r1<2 and 0<=r2<2
    pre: 0 <= trips <= 2 and 0 <= rz <= 2
    post: _
    """
    sel = [('x' if i == 0 else 'y') for i in (b0,b1,b2,b3,b4,r0,r1,r2)]
    names = dict(zip(['B0','B1','B2','B3','B4','R0','R1','R2'], sel))
    with NoTracing():
        S = p11.supp_sets(names)
    events = []
    exec_(p11.PROG, {}, names, Dec([d1, d2], [trips], [rz]), events)
    return all(site in S[j] for j, site in events)
