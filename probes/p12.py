from supp.util import Source
from supp.scope import SourceScope

def check_def(name: str, sp: int, is_async: bool) -> bool:
    """
    pre: 1 <= len(name) <= 2 and all(c in 'adef' for c in name)
    pre: 1 <= sp <= 2
    post: _
    """
    kw = 'async def' if is_async else 'def'
    line = kw + ' ' * sp + name + '():'
    src = Source('', 'a.py')
    src.__dict__['lines'] = [line, '    pass']
    scope = SourceScope(src)
    l, c = scope.find_id_loc(' ' + name, (1, 0), 1, False)
    return l == 1 and line[c:c+len(name)] == name and c == len(kw) + sp
