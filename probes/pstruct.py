# pure-Python model of the struct formats umsgpack uses
class error(Exception): pass
_F = {'b':(1,True),'B':(1,False),'h':(2,True),'H':(2,False),'i':(4,True),'I':(4,False),'q':(8,True),'Q':(8,False)}
def _fmt(fmt):
    if fmt[0] in '<>!=@': fmt = fmt[1:]
    return [_F[c] for c in fmt]
def pack(fmt, *vals):
    out = []
    for (n, signed), v in zip(_fmt(fmt), vals):
        lo, hi = (-(1 << (8*n-1)), (1 << (8*n-1)) - 1) if signed else (0, (1 << (8*n)) - 1)
        if not (lo <= v <= hi):
            raise error('out of range')
        if v < 0:
            v = v + (1 << (8*n))
        bs = []
        for i in range(n):
            bs.append(v % 256); v = v // 256
        out.extend(reversed(bs))
    return bytes(out)
def unpack(fmt, data):
    res = []; pos = 0
    for n, signed in _fmt(fmt):
        v = 0
        for i in range(n):
            v = v * 256 + data[pos+i]
        pos += n
        if signed and v >= (1 << (8*n-1)):
            v -= (1 << (8*n))
        res.append(v)
    if pos != len(data): raise error('size')
    return tuple(res)
