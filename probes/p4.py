import re
def ref_prefix(line: str) -> str:
    i = len(line)
    while i > 0 and (line[i-1].isalnum() or line[i-1] == '_'):
        i -= 1
    return line[i:]
def impl_prefix(line: str) -> str:
    return re.split(r'(\.|\s|\()', line)[-1]
def check(line: str) -> bool:
    """
    pre: len(line) <= 4
    pre: all(ord(c) < 128 for c in line)
    post: _
    """
    return impl_prefix(line) == ref_prefix(line)
