# hand-transcribed line-level model of remote.py prepare/run/_threaded_run/_call; schedule symbolic; z3 BMC
import z3, time
# programs: list of (op, arg...) per thread. pc = index; END = len
A = [('acq',), ('if_pt_ret', 5), ('if_conn_ret', 5), ('set_pt', 2), ('start', 2), ('rel_end',)]            # prepare(): thread 0 ; spawns thread 2
B = [('try_conn', 8), ('acq',), ('if_pt_else', 4), ('join_pt',), ('if_noconn_else', 7), ('launch',), ('connect',), ('rel',), ('sendrecv',)]  # _call -> run()
S = [('launch',), ('connect',), ('clear_pt',)]                                                                # _threaded_run
PROG = [A, B, S]
N = 3; BOUND = sum(len(p) for p in PROG) + 2
def mk(t): return dict(pc=[z3.Int(f'pc{i}_{t}') for i in range(N)], exc=[z3.Int(f'exc{i}_{t}') for i in range(N)],
                        alive=[z3.Bool(f'al{i}_{t}') for i in range(N)], pt=z3.Int(f'pt_{t}'), lock=z3.Int(f'lock_{t}'),
                        conn=z3.Bool(f'conn_{t}'), launches=z3.Int(f'ln_{t}'))
s = z3.Solver()
st = [mk(t) for t in range(BOUND + 1)]
sched = [z3.Int(f'sched_{t}') for t in range(BOUND)]
s0 = st[0]
s.add(*[s0['pc'][i] == 0 for i in range(N)], *[s0['exc'][i] == 0 for i in range(N)], s0['alive'][0], s0['alive'][1], z3.Not(s0['alive'][2]),
      s0['pt'] == -1, s0['lock'] == -1, z3.Not(s0['conn']), s0['launches'] == 0)
def done(sv, i): return z3.Or(sv['pc'][i] >= len(PROG[i]), sv['exc'][i] != 0)
def step(cur, nxt, tid):
    """returns (enabled, effect) for thread tid taking one line"""
    cases = []
    for pc, ins in enumerate(PROG[tid]):
        op = ins[0]
        upd = dict(pc=pc + 1, exc=0, pt=cur['pt'], lock=cur['lock'], conn=cur['conn'], launches=cur['launches'], spawn=None)
        en = z3.BoolVal(True)
        if op == 'acq': en = cur['lock'] == -1; upd['lock'] = tid
        elif op in ('rel', 'rel_end'): upd['lock'] = -1
        elif op == 'if_pt_ret': upd['pc'] = z3.If(cur['pt'] != -1, len(PROG[tid]), pc + 1); upd['lock'] = z3.If(cur['pt'] != -1, -1, cur['lock'])
        elif op == 'if_conn_ret': upd['pc'] = z3.If(cur['conn'], len(PROG[tid]), pc + 1); upd['lock'] = z3.If(cur['conn'], -1, cur['lock'])
        elif op == 'set_pt': upd['pt'] = ins[1]
        elif op == 'start': upd['spawn'] = ins[1]; upd['exc'] = z3.If(cur['pt'] == -1, 1, 0)
        elif op == 'try_conn': upd['pc'] = z3.If(cur['conn'], ins[1], pc + 1)
        elif op == 'if_pt_else': upd['pc'] = z3.If(cur['pt'] != -1, pc + 1, ins[1])
        elif op == 'join_pt':   # read handle now; None -> AttributeError; else wait for thread 2 to finish
            en = z3.Or(cur['pt'] == -1, done(cur, 2)); upd['exc'] = z3.If(cur['pt'] == -1, 1, 0); upd['lock'] = z3.If(cur['pt'] == -1, -1, cur['lock'])
        elif op == 'if_noconn_else': upd['pc'] = z3.If(z3.Not(cur['conn']), pc + 1, ins[1])
        elif op == 'launch': upd['launches'] = cur['launches'] + 1
        elif op == 'connect': upd['conn'] = z3.BoolVal(True)
        elif op == 'clear_pt': upd['pt'] = -1
        elif op == 'sendrecv': upd['exc'] = z3.If(cur['conn'], 0, 2)
        cases.append((pc, en, upd))
    return cases
for t in range(BOUND):
    cur, nxt = st[t], st[t + 1]
    trans = []
    for tid in range(N):
        for pc, en, u in step(cur, nxt, tid):
            guard = z3.And(sched[t] == tid, cur['alive'][tid], z3.Not(done(cur, tid)), cur['pc'][tid] == pc, en)
            eff = [nxt['pc'][tid] == u['pc'], nxt['exc'][tid] == u['exc'], nxt['pt'] == u['pt'], nxt['lock'] == u['lock'],
                   nxt['conn'] == u['conn'], nxt['launches'] == u['launches']]
            for o in range(N):
                if o != tid:
                    eff += [nxt['pc'][o] == cur['pc'][o], nxt['exc'][o] == cur['exc'][o]]
                eff.append(nxt['alive'][o] == (z3.Or(cur['alive'][o], True) if u['spawn'] == o else cur['alive'][o]))
            trans.append(z3.And(guard, *eff))
    # stutter when everything is finished
    allfin = z3.And(*[z3.Or(z3.Not(cur['alive'][i]), done(cur, i)) for i in range(N)])
    stut = z3.And(allfin, sched[t] == -1, *[nxt['pc'][i] == cur['pc'][i] for i in range(N)], *[nxt['exc'][i] == cur['exc'][i] for i in range(N)],
                  *[nxt['alive'][i] == cur['alive'][i] for i in range(N)], nxt['pt'] == cur['pt'], nxt['lock'] == cur['lock'], nxt['conn'] == cur['conn'], nxt['launches'] == cur['launches'])
    s.add(z3.Or(stut, *trans))
fin = st[BOUND]
bad = z3.Or(*[fin['exc'][i] != 0 for i in range(N)], z3.And(*[z3.Or(z3.Not(fin['alive'][i]), done(fin, i)) for i in range(N)], fin['launches'] != 1))
s.add(bad)
t0 = time.time(); r = s.check(); print(r, round(time.time() - t0, 2), 's; bound', BOUND)
if str(r) == 'sat':
    m = s.model(); print('schedule', [m.eval(x).as_long() for x in sched]); print('exc', [m.eval(fin['exc'][i]) for i in range(N)], 'launches', m.eval(fin['launches']))
