from supp.linter import lint
NA = ('x', 'y', '_x', 'os')
NB = ('x', 'y', '_x')
NC = ('x', 'y', '_x', 'yy')
ND = ('x', 'y', '_x', 'len')
def check(ia: int, ib: int, ic: int, id_: int) -> bool:
    """
    pre: 0 <= ia < 4 and 0 <= ib < 3 and 0 <= ic < 4 and 0 <= id_ < 4
    post: _
    """
    a, b, c, d = NA[ia], NB[ib], NC[ic], ND[id_]
    text = 'import %s\ndef f(%s):\n    %s = 1\n    return %s\n' % (a, b, c, d)
    res = lint(None, text, 'a.py')
    codes = [(r[0], r[1], r[2], r[3]) for r in res]
    want_c = (d != c) and not c.startswith('_')
    has_c = ('W01', 'Unused name: ' + c, 3, 4) in codes
    return want_c == has_c
