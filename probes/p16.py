import io, ast
from crosshair.tracers import NoTracing
import supp.project as sp, supp.module as sm, supp.nast as sn, supp.util as su
from supp.project import Project
from supp.assistant import assist

FS = {}
def _exists(p): return p in FS
def _getmtime(p): return FS[p][0]
def _open(p, *a): return io.StringIO(FS[p][1])
_extract = sn.extract; _parse = su.parse
def extract_nt(*a, **k):
    with NoTracing(): return _extract(*a, **k)
def parse_nt(*a, **k):
    with NoTracing(): return _parse(*a, **k)

def ask(project):
    with project.check_changes():
        return assist(project, 'import a\na.', (2, 2), '/r/m.py')

def check(t1: int, t2: int, star: bool) -> bool:
    """
    pre: t1 != t2
    post: _
    """
    FS.clear()
    FS['/r/a.py'] = [5, 'from b import *\n' if star else 'import b\nx = b.x\n']
    FS['/r/b.py'] = [t1, 'x = 1\n']
    old = (sp.os.path.exists, sm.getmtime, sm.__dict__.get('open'), sn.extract, su.parse)
    class P:  # minimal os.path facade
        exists = staticmethod(_exists); join = staticmethod(sp.os.path.join); dirname = staticmethod(sp.os.path.dirname); basename = staticmethod(sp.os.path.basename)
    class O: path = P; listdir = staticmethod(lambda d: [])
    real_os = sp.os
    sp.os = O; sm.getmtime = _getmtime; sm.open = _open; sn.extract = extract_nt; su.parse = parse_nt
    try:
        p = Project(['/r'])
        r0 = ask(p)
        FS['/r/b.py'] = [t2, 'y = 1\n']
        r1 = ask(p)
        fresh = ask(Project(['/r']))
    finally:
        sp.os = real_os; sm.getmtime = old[1]; sn.extract = old[3]; su.parse = old[4]
        if old[2] is None: del sm.open
    return r1 == fresh
