import sys
sys.path.insert(0,'/tmp/probe')
import supp.umsgpack as u

class HB:
    """harness byte string: list of int terms (concrete or symbolic), never a CrossHair bytes"""
    def __init__(self, items): self.items = list(items)
    def __len__(self): return len(self.items)
    def __add__(self, o): return Segs([self]) + o
    def __radd__(self, o): return Segs([o]) + self
    def __getitem__(self, i):
        if isinstance(i, slice): return HB(self.items[i])
        return self.items[i]
    def __eq__(self, o):
        if isinstance(o, bytes): o = HB(list(o))
        return isinstance(o, HB) and len(o.items) == len(self.items) and all(a == b for a, b in zip(self.items, o.items))
    def __hash__(self): return 0
class Blob(bytes):
    def __new__(cls, n, tag='p'):
        o = bytes.__new__(cls, b''); o.n = n; o.tag = tag; return o
    def __len__(self): return self.n
    def __radd__(self, other): return Segs([other]) + self
    def __add__(self, other): return Segs([self]) + other
class Segs:
    def __init__(self, parts):
        self.parts = []
        for p in parts: self._push(p)
    def _push(self, p):
        if isinstance(p, Segs): self.parts.extend(p.parts)
        elif isinstance(p, Blob): self.parts.append(p)
        elif isinstance(p, (bytes, bytearray)): self.parts.append(HB(list(p)))
        else: self.parts.append(p)
    def __add__(self, o): r = Segs(self.parts); r._push(o); return r
    def __radd__(self, o): r = Segs([o]); r.parts.extend(self.parts); return r

class pstruct:
    class error(Exception): pass
    _F = {'b':(1,True),'B':(1,False),'h':(2,True),'H':(2,False),'i':(4,True),'I':(4,False),'q':(8,True),'Q':(8,False)}
    @classmethod
    def _fmt(cls, fmt):
        if fmt[0] in '<>!=@': fmt = fmt[1:]
        return [cls._F[c] for c in fmt]
    @classmethod
    def pack(cls, fmt, *vals):
        out = []
        for (n, signed), v in zip(cls._fmt(fmt), vals):
            lo, hi = (-(1 << (8*n-1)), (1 << (8*n-1)) - 1) if signed else (0, (1 << (8*n)) - 1)
            if not (lo <= v <= hi): raise cls.error('out of range')
            if v < 0: v = v + (1 << (8*n))
            bs = []
            for i in range(n):
                bs.append(v % 256); v = v // 256
            out.extend(reversed(bs))
        return HB(out)
    @classmethod
    def unpack(cls, fmt, data):
        res = []; pos = 0
        for n, signed in cls._fmt(fmt):
            v = 0
            for i in range(n): v = v * 256 + data[pos+i]
            pos += n
            if signed and v >= (1 << (8*n-1)): v -= (1 << (8*n))
            res.append(v)
        return tuple(res)
u.struct = pstruct

class W:
    def __init__(self): self.segs = Segs([])
    def write(self, b): self.segs = self.segs + b
class R:
    def __init__(self, segs): self.parts = list(segs.parts); self.off = 0
    def read(self, n):
        if not self.parts: return b''
        head = self.parts[0]
        if isinstance(head, Blob):
            if n == head.n: self.parts.pop(0); return head
            if n < head.n: return Blob(n, 'slice')       # wrong length: not the payload
            self.parts.pop(0); return Blob(head.n, 'short')   # overrun at end of stream -> shorter than asked
        out = head.items[self.off:self.off+n]
        self.off += len(out)
        if self.off >= len(head.items): self.parts.pop(0); self.off = 0
        if n == 1:
            return bytes(out)      # first byte / ext type: concrete-or-realised single byte for the dispatch table
        return HB(out)

def rt_bin(n: int) -> bool:
    """
    pre: 0 <= n < 2**32
    post: _
    """
    b = Blob(n)
    w = W(); u.pack(b, w)
    r = u.unpack(R(w.segs))
    return r is b
def rt_bin_big(n: int) -> bool:
    """
    pre: n >= 2**32
    post: _
    raises: u.UnsupportedTypeException
    """
    w = W(); u.pack(Blob(n), w)
    return False
