import ast
from supp.util import Source
from supp.scope import SourceScope
from supp.nast import extract
from supp.name import MultiName, UndefinedName

SRC = '''\
x = 1
for i in r:
    if c:
        y = x
    x = y
z = x
w = z
'''
def resolve(tree, src, slot_of):
    reads = [n for n in ast.walk(tree) if isinstance(n, ast.Name) and isinstance(n.ctx, ast.Load)]
    scope = SourceScope(src); scope.parent = None
    extract(tree, scope.flow)
    out = []
    for r in reads:
        v = r.flow.names_at((r.lineno, r.col_offset)).get(r.id)
        if v is None: out.append(None)
        elif isinstance(v, MultiName): out.append(sorted(-1 if isinstance(a, UndefinedName) else slot_of[id(a.value_node)] for a in v.alt_names))
        else: out.append([slot_of[id(v.value_node)]])
    return out

def stmts(tree):
    out = []
    def rec(body):
        for s in body:
            out.append(s)
            for f in ('body', 'orelse'):
                if hasattr(s, f): rec(getattr(s, f))
    rec(tree.body); return out

def shift(node, dl, dc_same_line, line0):
    for n in ast.walk(node):
        if hasattr(n, 'lineno'):
            if n.lineno == line0: n.col_offset = n.col_offset + dc_same_line
            n.lineno = n.lineno + dl

def check(g1: int, g2: int, g3: int, g4: int, g5: int, g6: int, j6: bool, sp: int) -> bool:
    """
    pre: 0 <= g1 <= 2 and 0 <= g2 <= 2 and 0 <= g3 <= 2 and 0 <= g4 <= 2 and 0 <= g5 <= 2 and 0 <= g6 <= 2 and 0 <= sp <= 2
    post: _
    """
    src = Source(SRC, 'x.py')
    base_tree = ast.parse(SRC)
    ss = stmts(base_tree)
    slot_of = {}
    for k, s in enumerate(ss):
        if isinstance(s, (ast.Assign,)): slot_of[id(s.value)] = k
        if isinstance(s, ast.For): slot_of[id(s.iter)] = k
    base = resolve(base_tree, src, slot_of)
    tree = ast.parse(SRC)
    ss2 = stmts(tree)
    slot2 = {}
    for k, s in enumerate(ss2):
        if isinstance(s, (ast.Assign,)): slot2[id(s.value)] = k
        if isinstance(s, ast.For): slot2[id(s.iter)] = k
    # cumulative blank lines before statement k (top-level order of appearance)
    gaps = [g1, g2, g3, g4, g5, g6]
    cum = 0
    # statements in source order: x=1, for, if, y=x, x=y, z=x, w=z  (7 stmts; 6 gaps after the first)
    order = ss2
    for k in range(1, len(order)):
        cum = cum + gaps[k-1]
        s = order[k]
        # shift only this statement's own header line nodes and non-stmt children: do per-node on own line range
    # simpler: shift whole statements by cumulative gap of their start
    cum = 0
    for k in range(1, len(order)):
        cum = cum + gaps[k-1]
        s = order[k]
        own = [n for n in ast.walk(s) if hasattr(n, 'lineno') and n.lineno == s.lineno]
        for n in own:
            n._dl = cum
    for s in order:
        for n in ast.walk(s):
            if hasattr(n, '_dl'):
                n.lineno = n.lineno + n._dl; del n._dl
    # last statement optionally joined to previous line with ';'
    if j6:
        last, prev = order[-1], order[-2]
        for n in ast.walk(last):
            if hasattr(n, 'lineno'):
                n.lineno = prev.lineno; n.col_offset = n.col_offset + 5 + 2 + sp
    got = resolve(tree, src, slot2)
    return got == base
