import ast
from supp.util import Source
from supp.scope import SourceScope
from supp.nast import extract
from supp.name import MultiName, UndefinedName

SRC = '''\
x = 1
x = x + 2
y = x
'''
def resolve(tree, src):
    reads = [n for n in ast.walk(tree) if isinstance(n, ast.Name) and isinstance(n.ctx, ast.Load)]
    scope = SourceScope(src); scope.parent = None
    extract(tree, scope.flow)
    out = []
    for r in reads:
        v = r.flow.names_at((r.lineno, r.col_offset)).get(r.id)
        out.append(getattr(v, 'value_node', None))
    return out

def check(gap: int, joined: bool, sp: int) -> bool:
    """
    pre: 0 <= gap <= 3 and 0 <= sp <= 3
    post: _
    """
    src = Source(SRC, 'x.py')
    tree = src.tree
    s1, s2, s3 = tree.body
    base = resolve(ast.parse(SRC), src)
    base_idx = [None if b is None else 0 if isinstance(b, ast.Constant) else 1 for b in base]
    # relayout: statement 2 either on same line as stmt 1 after ';' or gap lines later
    if joined:
        dl, dc = 0 - 1, 7 + sp
    else:
        dl, dc = gap, sp * 0
    for n in ast.walk(s2):
        if hasattr(n, 'lineno'):
            n.lineno = n.lineno + dl; n.col_offset = n.col_offset + dc
    for n in ast.walk(s3):
        if hasattr(n, 'lineno'):
            n.lineno = n.lineno + dl
    got = resolve(tree, src)
    got_idx = [None if b is None else 0 if isinstance(b, ast.Constant) else 1 for b in got]
    return got_idx == base_idx
