import ast
from supp.util import Source
from supp.scope import SourceScope
from supp.nast import extract
from supp.name import MultiName, UndefinedName

# shape: slots B0..B4 (binds), R0..R2 (reads)
SRC = '''\
B0 = 1
for B1 in [1]:
    if c:
        R0
    else:
        B2 = 2
    B3 = 3
else:
    R1
try:
    B4 = 4
except E:
    R2
'''
# DSL mirror of SRC for the reference semantics
PROG = ('seq', [
    ('bind', 0),
    ('for', 1, ('seq', [('if', ('seq', [('read', 0)]), ('seq', [('bind', 2)])), ('bind', 3)]), ('seq', [('read', 1)])),
    ('try', ('seq', [('bind', 4)]), ('seq', [('read', 2)])),
])
UNB = -1
def join(e1, e2):
    out = {}
    for k in list(e1) + [k for k in e2 if k not in e1]:
        out[k] = e1.get(k, {UNB}) | e2.get(k, {UNB})
    return out
def run(node, env, names, reads):
    k = node[0]
    if k == 'seq':
        for s in node[1]: env = run(s, env, names, reads)
        return env
    if k == 'bind':
        env = dict(env); env[names['B%d' % node[1]]] = {node[1]}; return env
    if k == 'read':
        n = names['R%d' % node[1]]
        reads[node[1]] = reads.get(node[1], set()) | env.get(n, {UNB}); return env
    if k == 'if':
        return join(run(node[1], env, names, reads), run(node[2], env, names, reads))
    if k == 'for':
        e0 = env
        cur = env
        for _ in range(2):
            b = dict(cur); b[names['B%d' % node[1]]] = {node[1]}
            b = run(node[2], b, names, reads)
            cur = join(cur, b)
        return run(node[3], cur, names, reads)
    if k == 'try':
        body = run(node[1], env, names, reads)
        h = run(node[2], join(env, body), names, reads)   # raise at first or last statement
        return join(body, h)
    raise AssertionError(k)

def supp_sets(names):
    src = Source(SRC, 'x.py'); tree = src.tree
    slot_of = {}
    readnodes = {}
    for n in ast.walk(tree):
        if isinstance(n, ast.Name) and n.id in names:
            key = n.id
            if key[0] == 'B': slot_of[(n.lineno, n.col_offset)] = int(key[1:])
            else: readnodes[int(key[1:])] = n
            n.id = names[key]
    scope = SourceScope(src); scope.parent = None
    extract(tree, scope.flow)
    out = {}
    for j, r in readnodes.items():
        v = r.flow.names_at((r.lineno, r.col_offset)).get(r.id)
        if v is None: out[j] = {UNB}
        elif isinstance(v, MultiName):
            out[j] = set(UNB if isinstance(x, UndefinedName) else slot_of[x.declared_at] for x in v.alt_names)
        else: out[j] = {slot_of[v.declared_at]}
    return out

def check(b0: str, b1: str, b2: str, b3: str, b4: str, r0: str, r1: str, r2: str) -> bool:
    """
    pre: all(len(s) == 1 and s in 'xy' for s in (b0, b1, b2, b3, b4, r0, r1, r2))
    post: _
    """
    names = {'B0': b0, 'B1': b1, 'B2': b2, 'B3': b3, 'B4': b4, 'R0': r0, 'R1': r1, 'R2': r2}
    reads = {}
    run(PROG, {}, names, reads)
    S = supp_sets(names)
    return all(S[j] >= reads[j] for j in reads)   # C02 direction only
