import traceback
from supp.project import Project
from supp.assistant import assist, location
from supp.linter import lint
p = Project(['/tmp/probe/proj'])
def t(label, f):
    try: print(label, '->', f())
    except BaseException as e: print(label, 'EXC', type(e).__name__, e)
t('prefix x=fo', lambda: assist(p, 'foo=1\nx=fo', (2,4), 'a.py'))
t('prefix [fo', lambda: assist(p, 'foo=1\nx=[fo', (2,5), 'a.py')[0])
t('self.ba|r', lambda: assist(p, 'class A:\n  def f(self):\n    self.bar = 1\n    self.baz = 2\n', (3,11), 'a.py'))
t('loc len', lambda: location(p, 'len', (1,2), 'a.py'))
t('loc sys', lambda: location(p, 'import sys\nsys', (2,2), 'a.py'))
t('locals var', lambda: lint(p, 'def f():\n  locals = 1\n  return locals\n', 'a.py'))
t('for self.x', lambda: lint(p, 'class A:\n def f(self):\n  for self.x in []:\n   pass\n', 'a.py'))
t('return outside', lambda: lint(p, 'return 1\n', 'a.py'))
t('half import', lambda: assist(p, 'import o', (1,8), 'a.py')[1][:5])
t('half from', lambda: assist(p, 'from nosuch import ', (1,19), 'a.py'))
t('kwonly default', lambda: lint(p, 'a=1\ndef f(*, k=a):\n  return k\n', 'a.py'))
t('class kw', lambda: lint(p, 'm=type\nclass A(metaclass=m):\n  pass\n', 'a.py'))
t('posonly', lambda: lint(p, 'def f(a, /, b):\n  return a+b\n', 'a.py'))
t('nonlocal', lambda: lint(p, 'def f():\n  x=0\n  def g():\n    nonlocal x\n    y=x\n    x=y\n  return g, x\n', 'a.py'))
t('loop nested', lambda: lint(p, 'def f(r, c):\n  for i in r:\n    if c:\n      print(x)\n    x = 1\n', 'a.py'))
t('override loc', lambda: location(p, 'class A:\n  def m(self): pass\nclass B(A):\n  def m(self): pass\nB().m', (5,5), 'a.py'))
t('E01', lambda: lint(p, 'x = (\n', 'a.py'))
t('cyclic', lambda: assist(p, 'a = b\nb = a\na.', (3,2), 'a.py'))
t('inh cycle', lambda: assist(p, 'class A(B): pass\nclass B(A): pass\nA.', (3,2), 'a.py'))
