import importlib.util
from supp.util import split_pkg, join_pkg
from supp.project import Project
import supp.project as sp

def ref_resolve(name: str, package: str) -> str:
    return importlib.util.resolve_name(name, package)

def check_norm(dots: int, tail: str, depth: int, haspkg0: bool, haspkg1: bool, haspkg2: bool) -> bool:
    """
    pre: 1 <= dots <= 4 and 0 <= depth <= 3
    pre: tail in ('', 'm', 'm.n')
    post: _
    """
    # file /r/p0/p1/p2/f.py truncated to depth dirs
    dirs = ['p0', 'p1', 'p2'][:depth]
    has = [haspkg0, haspkg1, haspkg2][:depth]
    filename = '/'.join(['/r'] + dirs + ['f.py'])
    inits = set('/'.join(['/r'] + dirs[:i+1] + ['__init__.py']) for i in range(depth) if has[i])
    orig = sp.os.path.exists
    sp.os.path.exists = lambda p: p in inits
    try:
        p = Project(['/r'])
        try:
            got = p.norm_package('.' * dots + tail, filename)
        except Exception as e:
            got = 'EXC'
    finally:
        sp.os.path.exists = orig
    # importlib view: package of f.py = dotted dirs, valid only if all dirs are packages (no namespace pkgs)
    if not all(has):
        return True   # outside domain (namespace packages)
    package = '.'.join(dirs)
    try:
        want = ref_resolve('.' * dots + tail, package)
    except ImportError:
        want = 'EXC'
    return got == want
