import ast
from supp.util import Source
from supp.scope import SourceScope
from supp.nast import extract
from supp.name import MultiName, UndefinedName

SRC = '''\
A = 1
if c:
    B = 2
else:
    C = 3
D
'''
def analyse(a: str, b: str, c: str, d: str):
    src = Source(SRC, 'x.py')
    tree = src.tree
    # rename
    m = {'A': a, 'B': b, 'C': c, 'D': d}
    reads = []
    for n in ast.walk(tree):
        if isinstance(n, ast.Name) and n.id in m:
            n.id = m[n.id]
            if isinstance(n.ctx, ast.Load): reads.append(n)
    scope = SourceScope(src); scope.parent = None
    extract(tree, scope.flow)
    r = reads[0]
    names = r.flow.names_at((r.lineno, r.col_offset))
    v = names.get(r.id)
    if v is None: return 'none'
    if isinstance(v, MultiName):
        return sorted(('undef' if isinstance(x, UndefinedName) else str(x.declared_at)) for x in v.alt_names)
    return str(v.declared_at)

def check(a: str, b: str, c: str, d: str) -> bool:
    """
    pre: len(a) == 1 and len(b) == 1 and len(c) == 1 and len(d) == 1
    pre: a in 'xyz' and b in 'xyz' and c in 'xyz' and d in 'xyz'
    post: _
    """
    r = analyse(a, b, c, d)
    # bogus property to force exploration: if d == b and b != c and a != b then has undef
    if d == b and b != c and a != b:
        return isinstance(r, list) and 'undef' in r
    return True
