import os, sys, time
from supp.project import Project
from supp.assistant import assist, location
from supp.linter import lint
def t(label, f):
    try: print(label, '->', f())
    except BaseException as e: print(label, 'EXC', type(e).__name__, e)
p = Project(['/tmp/probe/proj'])
t('async def d', lambda: lint(p, 'async def d():\n    zz = 1\n', 'a.py'))
t('async def d loc', lambda: location(p, 'async def de():\n    pass\nde', (3,1), 'a.py'))
t('from a import a', lambda: lint(p, 'from a import a\n', 'a.py'))
t('import x.y as y', lambda: lint(p, 'import xx.y as y\n', 'a.py'))
src = 'if a1:\n    x = 1\nelif a2:\n    x = 2\nelif a3:\n    x = 3\nelse:\n    x = 4\nx\n'
t('multi loc', lambda: location(p, src, (9,1), 'a.py'))
# C09 staleness
d='/tmp/probe/proj'
open(d+'/b.py','w').write('x = 1\n'); open(d+'/a.py','w').write('from b import *\n')
t('stale0', lambda: assist(p, 'import a\na.', (2,2), d+'/m.py'))
time.sleep(0.01)
open(d+'/b.py','w').write('y = 1\n'); os.utime(d+'/b.py', (time.time()+5, time.time()+5))
def req():
    with p.check_changes():
        return assist(p, 'import a\na.', (2,2), d+'/m.py')
t('stale1', req)
t('fresh', lambda: assist(Project([d]), 'import a\na.', (2,2), d+'/m.py'))
from supp.remote import Environment
e = Environment(); e.conn = None
t('close', e.close)
