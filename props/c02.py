from props import tprops

PID = 'C02'


def run(tier, seed):
    return tprops.run(
        PID, tier, seed,
        explanation='CrossHair symbolic execution of the real nast.extract / Flow.names_at over template trees with '
                    'symbolic identifiers; for every read, the set of bindings a CPython execution can read there '
                    '(reference semantics, exhaustive over decisions) must be contained in the alternatives supp lists.',
        functions=['supp.nast.extract (all visit_*)', 'Flow.add_name/names/parent_names/names_at', 'LoopFlow.names',
                   'MergedDict', 'MultiName', 'FuncScope/ClassScope.__init__', 'insert_loc', 'get_expr_end',
                   'get_indexes_for_target'],
        bounds=['C02 domain: same-body reads, loops left by exhaustion, raise only at first/last statement of a try body',
                'loops <= 2 trips; call depth <= 3'],
        assumptions=[])


def replay_file(obj):
    return tprops.replay_file(PID, obj)
