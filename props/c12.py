"""C12 completion contract: (a) prefix on a symbolic line (S); (b) hygiene and (c) mark transparency over a
program family with solver-chosen cursor (E)."""
import os
import re

from vlib import runner
from vlib.runner import Query, Report

PID = 'C12'
HA = os.path.join(runner.VERIF, 'harness', 'h_c12a.py')
HB = os.path.join(runner.VERIF, 'harness', 'h_c12b.py')


def _copy(src, fn, new, pre=None, twin=False):
    m = re.search(r'^def %s\(.*?(?=^def |\Z)' % fn, src, re.S | re.M)
    body = m.group(0).replace('def %s(' % fn, 'def %s(' % new, 1)
    if pre:
        body = body.replace('    post: _', '    pre: %s\n    post: _' % pre, 1)
    if twin:
        body = body.replace('TWIN[0]', 'True')
    return body


def replay_a(q, args, kwargs):
    h = runner.load_module(HA, 'h_c12a_native')
    fn = q.meta['fn']
    if fn == 'prefix_enum':
        line = h.enum_line(args[0], list(args[1:]))
    else:
        line = args[-1] if fn == 'prefix_len' else 'from ' + args[0]
    got = h.run(line)
    want = h.ref_prefix(line)
    if got == want:
        return {'violated': False}
    # confirm through the unstubbed public API
    import importlib
    import supp.assistant as A
    importlib.reload(A)
    from supp.project import Project
    try:
        real = A.assist(Project(['/nonexistent-root']), line, (1, len(line)), 'f.py')[0]
    except SyntaxError:
        real = got
    if real == want:
        return {'violated': False}
    return {'violated': True, 'known': None,
            'what': 'assist(%r with the cursor at the end) returns prefix %r, the identifier characters left of the cursor are %r'
                    % (line, real, want), 'replay': {'line': line}}


def replay_b(q, args, kwargs):
    h = runner.load_module(HB, 'h_c12b_native')
    case, target, k = args
    if target >= len(h.TARGETS[case]) or k > len(h.TARGETS[case][target][3]):
        return {'violated': False}
    bad = h.problems(case, target, k)
    if not bad:
        return {'violated': False}
    kind, line, col, ident = h.TARGETS[case][target]
    return {'violated': True, 'known': None,
            'what': 'assist at (%d, %d) [%s %r, %d chars left of the cursor] of\n%s  -> %s'
                    % (line, col + k, kind, ident, k, ''.join('      | ' + l + '\n' for l in h.CASES[case].splitlines()),
                       '; '.join(bad)),
            'replay': {'text': h.CASES[case], 'position': [line, col + k], 'case': case, 'target': target, 'k': k}}


def run(tier, seed):
    rep = Report(PID, tier, seed, 'other')
    runner.workdir(PID)
    root = os.path.join(runner.WORK, PID, 'proj')
    os.makedirs(root, exist_ok=True)
    os.environ['VERIF_C12_ROOT'] = root
    hb = runner.load_module(HB, 'h_c12b_setup')
    hb.materialise(root)
    sa = open(HA).read()
    sb = open(HB).read()
    qs = []
    maxlen = 4 if tier == 'quick' else 5
    for n in range(maxlen + 1):
        new = 'prefix_len_%d' % n
        qs.append(Query(new, sa + '\n\n' + _copy(sa, 'prefix_len', new, 'n == %d' % n), new, 'main',
                        60 + 150 * max(0, n - 2) ** 2, per_path=60, meta={'fn': 'prefix_len', 'h': 'a'}, label='S'))
    for n in range(0, (3 if tier == 'quick' else 4) + 1):
        new = 'prefix_from_%d' % n
        qs.append(Query(new, sa + '\n\n' + _copy(sa, 'prefix_from', new, 'len(tail) == %d' % n), new, 'main',
                        200 if tier == 'quick' else 500, per_path=60, meta={'fn': 'prefix_from', 'h': 'a'}, label='S'))
    for n in range(0, (3 if tier == 'quick' else 4) + 1):
        new = 'prefix_enum_%d' % n
        qs.append(Query(new, sa + '\n\n' + _copy(sa, 'prefix_enum', new, 'n == %d' % n), new, 'main', 300 if tier == 'quick' else 1500,
                        per_path=60, meta={'fn': 'prefix_enum', 'h': 'a'}, label='E'))
    qs.append(Query('prefix__twin', sa + '\n\n' + _copy(sa, 'prefix_len', 'prefix__twin', 'n == 2', twin=True),
                    'prefix__twin', 'twin', 60, meta={'h': 'a'}))
    nc = hb.NCASES
    step = 9
    for lo in range(0, nc, step):
        new = 'cursor_%03d' % lo
        qs.append(Query(new, sb + '\n\n' + _copy(sb, 'check', new, '%d <= case < %d' % (lo, min(nc, lo + step))), new,
                        'main', 200, per_path=30, meta={'h': 'b'}, label='E'))
    qs.append(Query('cursor__twin', sb + '\n\n' + _copy(sb, 'check', 'cursor__twin', 'case == 0 and target == 0 and k == 1', twin=True),
                    'cursor__twin', 'twin', 60, meta={'h': 'b'}))
    runner.run_queries(PID, qs)
    rep.absorb([q for q in qs if q.meta.get('h') == 'a'], replay_a)
    rep.absorb([q for q in qs if q.meta.get('h') == 'b'], replay_b)
    rep.functions = ['supp.assistant.assist (whole function)', 'assistant.identifier_prefix', 'util.Source (position branch)',
                     'util.get_marked_name/get_marked_atribute/get_marked_import/unmark/marked', 'nast.extract_scope',
                     'Flow.names_at', 'EvalCtx.evaluate', 'Object.attr_list']
    rep.bounds = ['(a) S: the text left of the cursor is ANY string of length <= %d (all of Unicode), plus "from " + any tail of length <= %d'
                  % (maxlen, 3 if tier == 'quick' else 4),
                  '(a) E companion: every line of length <= %d over the 10 characters a 1 _ e-acute sharp-s Omega space . ( # (concrete strings, no string theory involved)' % (3 if tier == 'quick' else 4),
                  '(b),(c) E: %d programs (family shapes under 2 namings + 6 attribute/import programs over 5 project modules), '
                  'every name read / attribute / import name, every cursor offset 1..len inside and at the end' % nc]
    rep.assumptions = ['(a): supp.assistant.Source replaced by an object holding the symbolic line and an empty Module tree (the prefix does not depend on the tree); project stubbed',
                       '(c): reference = the same real analysis on the unmarked source',
                       'identifier characters = str.isalnum() or "_"']
    for q in qs[:4]:
        rep.samples.append({'query': q.name, 'status': q.result['status'], 'paths': q.result.get('paths')})
    return rep.finish('CrossHair: (a) assist() on a symbolic line -- prefix equals the longest identifier-character suffix for all '
                      'strings of the bounded length; (b),(c) solver-enumerated cursor positions over a program family through the '
                      'real assist(): exact prefix, sorted duplicate-free marker-free proposals, equal to the unmarked analysis.',
                      'one obligation per line length (a) / per slice of programs (b,c)')


def replay_file(obj):
    if 'line' in obj:
        class Q:
            meta = {'fn': 'prefix_len'}
        v = replay_a(Q, [len(obj['line']), obj['line']], {})
    else:
        v = replay_b(None, [obj['case'], obj['target'], obj['k']], {})
    if v['violated']:
        print('VIOLATION property=%s replay=given' % PID)
        print('  ' + v['what'])
        return 1
    print('not reproduced')
    return 0
