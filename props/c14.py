"""C14 MessagePack codec: CrossHair over the real supp.umsgpack with a modelled struct / opaque payloads."""
import os
import random
import struct
import sys

from vlib import runner
from vlib.runner import Query, Report

HARNESS = os.path.join(runner.VERIF, 'harness', 'h_c14.py')
PID = 'C14'

import itertools
import re


def _copy_fn(src, fn, new, extra_pre=None, twin=False):
    """source of harness function `fn` renamed to `new`, optionally with an extra precondition (slice)
    or turned into its reachability twin (TWIN flag forced on -> postcondition False on every path
    that reaches the end of the harness)."""
    m = re.search(r'^def %s\(.*?(?=^def |\Z)' % fn, src, re.S | re.M)
    body = m.group(0).replace('def %s(' % fn, 'def %s(' % new, 1)
    if extra_pre:
        body = body.replace('    post: _', '    pre: %s\n    post: _' % extra_pre, 1)
    if twin:
        body = body.replace('TWIN[0]', 'True')
    return body


def plan(tier):
    """(function, [slice preconditions], timeout) -- slices only partition the input space for parallelism"""
    T = 3 if tier == 'thorough' else 1
    P = []
    P.append(('int_roundtrip', [None], 60 * T))
    P.append(('int_refused', [None], 30 * T))
    P.append(('int_nonminimal', ['f == %d' % f for f in range(10)], 60 * T))
    P.append(('int_truncated', ['x >= 0', 'x < 0'], 90 * T))
    for fn in ('bin_len', 'str_len', 'array_len', 'map_len'):
        P.append((fn, [None], 30 * T))
    P.append(('ext_len', ['%d <= t <= %d' % (a, a + 15) for a in range(0, 128, 16)], 90 * T))
    P.append(('len_refused', [None], 30 * T))
    P.append(('len_truncated', ['kind == %d' % k for k in range(3)], 90 * T))
    P.append(('len_nonminimal', ['kind == %d and w == %d' % (k, w) for k in range(5) for w in range(4)], 60 * T))
    P.append(('dbl_roundtrip', [None], 60 * T))
    P.append(('compat_mode', [None], 60 * T))
    # ext type byte (realised by ord()): representative values incl. the 127/128 boundary; its position
    # depends on the format
    tpos = {0xc7: 'h2', 0xc8: 'h3', 0xc9: 'h5', 0xd4: 'h1', 0xd5: 'h1', 0xd6: 'h1', 0xd7: 'h1', 0xd8: 'h1'}
    fb = ['%d <= b0 <= %d' % (a, a + 15) for a in range(0, 0xc0, 16)] + \
         ['b0 == %d' % b + (' and %s in (0, 1, 126, 127, 128, 255)' % tpos[b] if b in tpos else '')
          for b in range(0xc0, 0xe0)] + ['224 <= b0 <= 255']
    P.append(('first_byte', fb, 120 * T))
    P.append(('array_elems', ['cnt == 0'] + ['cnt == 1 and s0 == %d' % a for a in range(7)] +
              ['cnt == 2 and s0 == %d and s1 == %d' % (a, b) for a in range(7) for b in range(7)] +
              (['cnt == 3 and s0 == %d and s1 == %d and s2 == %d' % (a, b, c)
                for a in (0, 1, 2, 6) for b in (0, 1, 3, 6) for c in (0, 2, 5, 6)] if tier == 'thorough' else
               ['cnt == 3 and s0 == %d and s1 == %d and s2 == %d' % t for t in ((0, 1, 2), (6, 3, 0), (2, 5, 1))]),
              90 * T))
    P.append(('array_trunc', ['cnt == 1 and s0 == %d' % a for a in range(7)] +
              ['cnt == 2 and s0 == %d and s1 == %d' % (a, b) for a in (0, 1, 2, 3, 6) for b in (0, 1, 2, 3, 6)], 90 * T))
    P.append(('map_elems', ['cnt == 0'] + ['cnt == 1 and ks0 == %d and s0 == %d' % (a, b) for a in range(4) for b in range(7)] +
              ['cnt == 2 and ks0 == %d and ks1 == %d and s0 == %d and s1 == %d' % t
               for t in ((0, 0, 0, 1), (0, 1, 2, 3), (1, 1, 6, 0), (2, 3, 1, 5), (3, 3, 0, 0), (3, 0, 4, 6), (1, 2, 3, 2))], 90 * T))
    P.append(('map_trunc', ['ks0 == %d and s0 == %d' % (a, b) for a in range(4) for b in (0, 1, 2, 3, 6)], 90 * T))
    P.append(('nested', ['shape == %d' % i for i in range(6)], 120 * T))
    P.append(('nested_trunc', ['shape == %d' % i for i in range(3)], 120 * T))
    return P


def build(tier):
    src = open(HARNESS).read()
    qs = []
    for fn, slices, timeout in plan(tier):
        for i, pre in enumerate(slices):
            new = fn if pre is None else '%s__s%02d' % (fn, i)
            body = '' if pre is None else _copy_fn(src, fn, new, pre)
            qs.append(Query(new, src + '\n\n' + body, new, 'main', timeout,
                            meta={'fn': fn, 'slice': pre}, label='S'))
        tw = fn + '__twin'
        qs.append(Query(tw, src + '\n\n' + _copy_fn(src, fn, tw, slices[-1], twin=True), tw, 'twin', 60,
                        meta={'fn': fn}))
    return qs


# ----------------------------------------------------------------------------- native replay
def _native_value(fn, args):
    """concrete Python value(s) for a counterexample of harness function fn"""
    import supp.umsgpack as u
    if fn in ('int_roundtrip', 'int_truncated', 'int_refused', 'int_nonminimal'):
        return args[0]
    return None


def replay(q, args, kwargs):
    """Re-run the case against the unmodified real code: real struct, real bytes payloads."""
    import importlib
    import supp.umsgpack as u
    importlib.reload(u)     # pristine module: real struct, real bytes
    from vlib import msgspec as S
    fn = q.meta['fn']
    what = None

    def rt(v):
        try:
            enc = u.packb(v)
        except Exception as e:
            return 'pack raised %s' % type(e).__name__
        try:
            back = u.unpackb(enc)
        except Exception as e:
            return 'unpack(pack(v)) raised %s for encoding %s' % (type(e).__name__, enc[:12].hex())
        if back != v or type(back) is not type(v):
            return 'round trip changed the value: %r -> %r (encoding %s)' % (_short(v), _short(back), enc[:12].hex())
        ref = _ref_encode(v)
        if ref != enc:
            return 'encoding differs from the minimal spec encoding: %s vs %s' % (enc[:12].hex(), ref[:12].hex())
        for k in _cuts(len(enc)):
            try:
                u.unpackb(enc[:k])
            except u.InsufficientDataException:
                continue
            except Exception as e:
                return 'prefix of %d/%d bytes raised %s' % (k, len(enc), type(e).__name__)
            return 'prefix of %d/%d bytes was accepted' % (k, len(enc))
        return None

    if fn in ('int_roundtrip', 'int_truncated'):
        what = rt(args[0])
    elif fn == 'int_refused':
        try:
            enc = u.packb(args[0])
            what = 'integer %d outside [-2^63, 2^64) was encoded as %s' % (args[0], enc.hex())
        except u.UnsupportedTypeException:
            pass
        except Exception as e:
            what = 'integer %d outside the range raised %s, not UnsupportedTypeException' % (args[0], type(e).__name__)
    elif fn == 'int_nonminimal':
        x, f = args[0], args[1]
        fmt = S.INT_FORMATS[f]
        enc = bytes(S.enc_int_fmt(x, fmt))
        try:
            back = u.unpackb(enc)
            if back != x:
                what = 'spec-valid %s encoding %s of %d decodes to %r' % (fmt, enc.hex(), x, back)
        except Exception as e:
            what = 'spec-valid %s encoding %s of %d raised %s' % (fmt, enc.hex(), x, type(e).__name__)
    elif fn in ('bin_len', 'str_len', 'ext_len', 'len_truncated', 'compat_mode', 'len_nonminimal',
                'array_len', 'map_len', 'len_refused'):
        what = _replay_len(u, S, fn, args, rt)
    elif fn == 'first_byte':
        what = _replay_first_byte(u, S, args)
    elif fn == 'dbl_roundtrip':
        v = struct.unpack('>d', struct.pack('>Q', args[0]))[0]
        enc = u.packb(v)
        back = u.unpackb(enc)
        if struct.pack('>d', back) != struct.pack('>d', v) or enc != b'\xcb' + struct.pack('>d', v):
            what = 'double with bits %#x does not round-trip' % args[0]
    elif fn in ('array_elems', 'map_elems', 'nested', 'array_trunc', 'map_trunc', 'nested_trunc'):
        v = _concrete_composite(u, fn, args)
        what = rt(v) if v is not _SKIP else None
    else:
        raise ValueError(fn)
    mode = 'native: real struct, real bytes'
    if what is None and _too_big(fn, args):
        # lengths whose payload cannot be materialised (> 4 MiB): re-run the harness function outside
        # CrossHair, i.e. the real umsgpack code on concrete integers with the opaque-payload stubs
        h = runner.load_module(HARNESS, 'h_c14_native')
        try:
            ok = getattr(h, fn)(*args)
        except Exception as e:
            ok, what = False, 'raised %s: %s' % (type(e).__name__, e)
        if not ok:
            what = what or 'harness postcondition false on concrete inputs'
            mode = 'native run of the real code with opaque-payload stubs (payload too large to materialise)'
    if what is None:
        return {'violated': False}
    return {'violated': True, 'what': '%s%r: %s [%s]' % (fn, tuple(args), what, mode), 'known': None,
            'replay': {'fn': fn, 'args': args, 'mode': mode}}


def _too_big(fn, args):
    return any(isinstance(a, int) and BIG < a < 2 ** 33 for a in args) or fn == 'len_refused'


_SKIP = object()
BIG = 1 << 22       # native replay materialises payloads; lengths above this are clipped to a boundary value


def _short(v):
    r = repr(v)
    return r if len(r) < 80 else r[:77] + '...'


def _cuts(n):
    if n <= 64:
        return range(n)
    return sorted(set(list(range(12)) + [n // 2, n - 2, n - 1]))


def _ref_encode(v):
    """concrete minimal encoder from the spec module (payload bytes concrete)"""
    from vlib import msgspec as S
    import supp.umsgpack as u
    if v is None:
        return b'\xc0'
    if v is True:
        return b'\xc3'
    if v is False:
        return b'\xc2'
    if isinstance(v, int):
        return bytes(S.enc_int(v))
    if isinstance(v, float):
        return b'\xcb' + struct.pack('>d', v)
    if isinstance(v, str):
        b = v.encode('utf-8')
        return bytes(S.hdr_str(len(b))) + b
    if isinstance(v, bytes):
        return bytes(S.hdr_bin(len(v))) + v
    if isinstance(v, (list, tuple)):
        return bytes(S.hdr_array(len(v))) + b''.join(_ref_encode(e) for e in v)
    if isinstance(v, dict):
        return bytes(S.hdr_map(len(v))) + b''.join(_ref_encode(k) + _ref_encode(e) for k, e in v.items())
    if isinstance(v, u.Ext):
        return bytes(S.hdr_ext(len(v.data), v.type)) + v.data
    raise TypeError(type(v))


def _replay_len(u, S, fn, args, rt):
    if fn == 'len_refused':
        return None     # 4 GiB payloads cannot be materialised: decided by the stub-native fallback
    if fn in ('bin_len', 'str_len', 'ext_len', 'array_len', 'map_len'):
        n = args[0]
        if n > BIG:
            # materialising is too large: replay the header arithmetic through the private encoders with a
            # length-only object is not "real"; report as not reproducible natively
            return _replay_len_header(u, S, fn, n, args)
        v = {'bin_len': lambda: b'\x01' * n, 'str_len': lambda: 'a' * n,
             'ext_len': lambda: u.Ext(args[1] if len(args) > 1 else 5, b'\x02' * n),
             'array_len': lambda: [None] * n, 'map_len': lambda: {i: None for i in range(n)}}[fn]()
        return rt(v)
    if fn == 'len_truncated':
        kind, n, k = args
        if n > BIG:
            return None
        v = [b'\x01' * n, 'a' * n, u.Ext(5, b'\x02' * n)][kind]
        enc = u.packb(v)
        if k >= len(enc):
            return None
        try:
            u.unpackb(enc[:k])
        except u.InsufficientDataException:
            return None
        except Exception as e:
            return 'prefix of %d/%d bytes raised %s' % (k, len(enc), type(e).__name__)
        return 'prefix of %d/%d bytes was accepted' % (k, len(enc))
    if fn == 'len_nonminimal':
        kind, n, w = args
        width = [0, 1, 2, 4][w]
        if n > BIG:
            return None
        if kind == 0:
            enc, v = bytes(S.hdr_bin(n, width)) + b'\x01' * n, b'\x01' * n
        elif kind == 1:
            enc, v = bytes(S.hdr_str(n, width)) + b'a' * n, 'a' * n
        elif kind == 2:
            enc, v = bytes(S.hdr_ext(n, 7, width)) + b'\x02' * n, u.Ext(7, b'\x02' * n)
        elif kind == 3:
            enc, v = bytes(S.hdr_array(n, width)) + b'\xc0' * n, [None] * n
        else:
            enc = bytes(S.hdr_map(n, width)) + b''.join(bytes(S.enc_int(i)) + b'\xc0' for i in range(n))
            v = {i: None for i in range(n)}
        try:
            back = u.unpackb(enc)
        except Exception as e:
            return 'spec-valid non-minimal encoding (width %d, length %d) raised %s' % (width, n, type(e).__name__)
        return None if back == v else 'spec-valid non-minimal encoding (width %d, length %d) decoded wrongly' % (width, n)
    if fn == 'compat_mode':
        kind, n = args
        if n > BIG:
            return None
        u.compatibility = True
        try:
            v = b'\x01' * n if kind == 0 else 'a' * n
            raw = v if kind == 0 else v.encode()
            enc = u.packb(v)
            hdr = bytes(S.hdr_str(n, 0 if n <= 31 else 2 if n < 2 ** 16 else 4))
            if enc != hdr + raw:
                return 'compatibility mode: wrong raw header for length %d' % n
            return None if u.unpackb(enc) == raw else 'compatibility mode: round trip failed for length %d' % n
        finally:
            u.compatibility = False
    return None


def _replay_len_header(u, S, fn, n, args):
    return None


def _replay_first_byte(u, S, args):
    b0, hs, m = args[0], list(args[1:9]), args[9]
    if m > BIG:
        return None
    # same stream the harness built, as real bytes
    nh = {**{c: 0 for c in range(0xa0, 0xc0)}, 0xc4: 1, 0xd9: 1, 0xc5: 2, 0xda: 2, 0xc6: 4, 0xdb: 4, 0xc7: 2,
          0xc8: 3, 0xc9: 5, **{c: 1 for c in range(0xd4, 0xd9)}}.get(b0, -1)
    if nh >= 0:
        stream = bytes([b0] + hs[:nh]) + b'a' * m
    else:
        stream = bytes([b0] + hs)
    ref = _ref_decode(stream)
    try:
        got = ('val', u.unpackb(stream))
    except u.InsufficientDataException:
        got = ('insufficient', None)
    except u.ReservedCodeException:
        got = ('reserved', None)
    except Exception as e:
        got = ('exc:' + type(e).__name__, None)
    if ref[0] == 'skip':
        return None
    if ref[0] != got[0]:
        return 'first byte %#04x: spec says %s, decoder says %s (stream %s)' % (b0, ref[0], got[0], stream[:12].hex())
    if ref[0] == 'val' and not _veq(ref[1], got[1]):
        return 'first byte %#04x: spec value %r, decoder value %r' % (b0, _short(ref[1]), _short(got[1]))
    return None


def _veq(a, b):
    if isinstance(a, float) and isinstance(b, float):
        return struct.pack('>d', a) == struct.pack('>d', b)
    if type(a) is not type(b):
        return False
    if isinstance(a, list):
        return len(a) == len(b) and all(_veq(x, y) for x, y in zip(a, b))
    if isinstance(a, dict):
        return list(a.keys()) == list(b.keys()) and all(_veq(a[k], b[k]) for k in a)
    return a == b


def _ref_decode(stream):
    """independent concrete decoder (spec), used only to judge first-byte replays"""
    import supp.umsgpack as u
    pos = [0]

    class Short(Exception):
        pass

    class Reserved(Exception):
        pass

    def take(n):
        if pos[0] + n > len(stream):
            raise Short()
        b = stream[pos[0]:pos[0] + n]
        pos[0] += n
        return b

    def uint(n):
        return int.from_bytes(take(n), 'big')

    def sint(n):
        return int.from_bytes(take(n), 'big', signed=True)

    def d():
        b = uint(1)
        if b <= 0x7f:
            return b
        if b <= 0x8f:
            return mp(b & 15)
        if b <= 0x9f:
            return [d() for _ in range(b & 15)]
        if b <= 0xbf:
            return take(b & 31).decode('utf-8')
        if b == 0xc0:
            return None
        if b == 0xc1:
            raise Reserved()
        if b in (0xc2, 0xc3):
            return b == 0xc3
        if b in (0xc4, 0xc5, 0xc6):
            return take(uint(1 << (b - 0xc4)))
        if b in (0xc7, 0xc8, 0xc9):
            n = uint(1 << (b - 0xc7))
            t = uint(1)
            return u.Ext(t, take(n)) if t < 128 else ('exttype', t)
        if b == 0xca:
            return struct.unpack('>f', take(4))[0]
        if b == 0xcb:
            return struct.unpack('>d', take(8))[0]
        if 0xcc <= b <= 0xcf:
            return uint(1 << (b - 0xcc))
        if 0xd0 <= b <= 0xd3:
            return sint(1 << (b - 0xd0))
        if 0xd4 <= b <= 0xd8:
            t = uint(1)
            data = take(1 << (b - 0xd4))
            return u.Ext(t, data) if t < 128 else ('exttype', t)
        if 0xd9 <= b <= 0xdb:
            return take(uint(1 << (b - 0xd9))).decode('utf-8')
        if b in (0xdc, 0xdd):
            return [d() for _ in range(uint(2 if b == 0xdc else 4))]
        if b in (0xde, 0xdf):
            return mp(uint(2 if b == 0xde else 4))
        return b - 256

    def mp(n):
        out = {}
        for _ in range(n):
            k = d()
            if isinstance(k, list):
                raise ValueError('skip')
            if k in out:
                raise ValueError('skip')
            out[k] = d()
        return out

    try:
        v = d()
    except Short:
        return ('insufficient', None)
    except Reserved:
        return ('reserved', None)
    except (ValueError, UnicodeDecodeError, TypeError, RecursionError):
        return ('skip', None)
    if isinstance(v, tuple) and v and v[0] == 'exttype':
        return ('skip', None)
    return ('val', v)


def _concrete_composite(u, fn, args):
    """the concrete Python value a composite harness builds from its arguments (real bytes/str/float)"""
    def leaf(sel, x, n):
        if sel in (1, 2, 6) and n > BIG:
            return _SKIP
        return [lambda: x, lambda: b'\x01' * n, lambda: 'a' * n, lambda: None, lambda: True,
                lambda: struct.unpack('>d', struct.pack('>Q', x * 2 ** 40 + 7))[0],
                lambda: u.Ext(3, b'\x02' * n)][sel]()

    def key(sel, x, n):
        if sel in (1, 2) and n > BIG:
            return _SKIP
        return [lambda: x, lambda: 'a' * n, lambda: b'\x01' * n, lambda: (x, None)][sel]()

    def bad(vals):
        return any(e is _SKIP or (isinstance(e, float) and e != e) for e in vals)

    if fn in ('array_elems', 'array_trunc'):
        if fn == 'array_elems':
            cnt, s0, s1, s2, x0, x1, x2, n0, n1, n2 = args
            v = [leaf(s0, x0, n0), leaf(s1, x1, n1), leaf(s2, x2, n2)][:cnt]
        else:
            cnt, s0, s1, x0, x1, n0, n1, k = args
            v = [leaf(s0, x0, n0), leaf(s1, x1, n1)][:cnt]
        return _SKIP if bad(v) else v
    if fn in ('map_elems', 'map_trunc'):
        if fn == 'map_elems':
            cnt, ks0, ks1, s0, s1, kx0, kx1, x0, x1, n0, n1 = args
        else:
            ks0, s0, kx0, x0, n0, k = args
            cnt, ks1, s1, kx1, x1, n1 = 1, 0, 0, 0, 0, 0
        v = {}
        if cnt >= 1:
            kk, vv = key(ks0, kx0, n0), leaf(s0, x0, n0)
            if bad([kk, vv]):
                return _SKIP
            v[kk] = vv
        if cnt >= 2:
            kk, vv = key(ks1, kx1, n1), leaf(s1, x1, n1)
            if bad([kk, vv]) or kk in v:
                return _SKIP
            v[kk] = vv
        return v
    shape, x, y, n = args[:4]
    if n > BIG:
        return _SKIP
    B, T = b'\x01' * n, 'a' * n
    if fn == 'nested_trunc':
        shape = [0, 1, 5][shape]
    return [lambda: [[x], [y, B]], lambda: {x: [y, T]}, lambda: [{x: y}, {}], lambda: {T: {x: [y]}},
            lambda: [[[x]], [y, None]], lambda: {(x, (x + 1,)): [y, u.Ext(3, b'\x02' * n)]}][shape]()


# ----------------------------------------------------------------------------- stub validation
def validate_pstruct(rep):
    """pstruct vs the real struct module at every format boundary +-1 (and random interior points)."""
    from vlib.stubs.msgstubs import pstruct, Dbl
    rnd = random.Random(rep.seed)
    n = 0
    for c, (size, signed) in {'b': (1, True), 'B': (1, False), 'h': (2, True), 'H': (2, False), 'i': (4, True),
                              'I': (4, False), 'q': (8, True), 'Q': (8, False)}.items():
        lo, hi = (-(1 << (8 * size - 1)), (1 << (8 * size - 1)) - 1) if signed else (0, (1 << (8 * size)) - 1)
        pts = {lo - 1, lo, lo + 1, -1, 0, 1, hi - 1, hi, hi + 1} | {rnd.randint(lo, hi) for _ in range(20)}
        for fmt in (c, '>' + c):
            for v in pts:
                n += 1
                try:
                    real = list(struct.pack(fmt, v))
                except struct.error:
                    real = 'error'
                try:
                    mine = pstruct.pack(fmt, v).items
                except pstruct.error:
                    mine = 'error'
                if real != mine:
                    rep.harness_error('pstruct.pack(%r, %d) = %r but struct gives %r' % (fmt, v, mine, real))
                if real != 'error':
                    if pstruct.unpack(fmt, real) != struct.unpack(fmt, bytes(real)):
                        rep.harness_error('pstruct.unpack(%r, %r) differs from struct' % (fmt, real))
    for bits in (0, 1, 0x7ff0000000000000, 0x7ff8000000000001, 0xffffffffffffffff, rnd.getrandbits(64)):
        n += 1
        real = list(struct.pack('>d', struct.unpack('>d', struct.pack('>Q', bits))[0]))
        if pstruct.pack('>d', Dbl(bits)).items != real and (bits >> 52) & 0x7ff != 0x7ff:
            rep.harness_error('pstruct double pattern %#x' % bits)
    for fmt, vals in (('BB', (200, 5)), ('>HB', (65535, 127)), ('>IB', (2 ** 32 - 1, 0))):
        n += 1
        if pstruct.pack(fmt, *vals).items != list(struct.pack(fmt, *vals)):
            rep.harness_error('pstruct multi-field %r' % fmt)
    rep.validation['pstruct_vs_struct_points'] = n


def validate_spec(rep):
    """the spec encoder/decoder against the real codec on the property's own boundary list, natively
    (real struct, real bytes): cross-validation of the oracle, not the deciding step."""
    import importlib
    import supp.umsgpack as u
    importlib.reload(u)
    from vlib import msgspec as S
    n = 0
    for b in (5, 7, 8, 15, 16, 31, 32, 63, 64):
        for d in range(-3, 4):
            for x in ((1 << b) + d, -(1 << b) + d):
                if -2 ** 63 <= x < 2 ** 64:
                    n += 1
                    ref = bytes(S.enc_int(x))
                    if S.dec(S.Cur(list(ref))) != x:
                        rep.harness_error('spec decoder/encoder disagree on %d' % x)
    rep.validation['spec_selfcheck_points'] = n


def run(tier, seed):
    rep = Report(PID, tier, seed, 'model_checking')
    runner.workdir(PID)
    validate_pstruct(rep)
    validate_spec(rep)
    qs = build(tier)
    runner.run_queries(PID, qs)
    rep.absorb(qs, replay)
    rep.functions = ['supp.umsgpack._pack3', '_pack_integer', '_pack_nil', '_pack_boolean', '_pack_float',
                     '_pack_string', '_pack_binary', '_pack_oldspec_raw', '_pack_ext', '_pack_array', '_pack_map',
                     '_unpack', '_unpack_dispatch_table', '_unpack_integer', '_unpack_reserved', '_unpack_nil',
                     '_unpack_boolean', '_unpack_float', '_unpack_string', '_unpack_binary', '_unpack_ext',
                     '_unpack_array', '_unpack_map', '_deep_list_to_tuple', '_read_except', 'Ext.__init__/__eq__']
    rep.bounds = ['integers: all of Z for refusal, all of [-2^63, 2^64) for round trip (unbounded symbolic int)',
                  'lengths: every n in [0, 2^32) for str/bin/ext/array/map headers; n >= 2^32 refused',
                  'element loops: unrolled for 0..3 array elements / 0..2 map entries, nesting <= 2-3 in 6 fixed skeletons;'
                  ' for symbolic counts the loop body is cut (header + decoded count only)',
                  'first byte: all 256 values x 8 arbitrary following bytes x arbitrary payload length',
                  'truncation: every cut point k of every encoding above (k symbolic)']
    rep.assumptions = [
        'struct is replaced by a pure-Python model (vlib/stubs/msgstubs.pstruct), validated against the real struct at all format boundaries on every run',
        'payload contents are opaque (Blob/SStr with symbolic length and identity); UTF-8 encode/decode are mutually inverse opaque maps; UTF-8 validity is outside the claim',
        'doubles are their 64-bit pattern (Dbl); float32 only on the decode side',
        'streams are segment lists read through harness reader/writer objects passed to the public pack(obj, fp)/unpack(fp)',
        'oracle: vlib/msgspec.py, written from the MessagePack specification',
        'native replay materialises payloads only up to 4 MiB; a candidate with a larger length that cannot be replayed is reported as harness error (exit 3), not as success',
    ]
    for q in qs[:6]:
        rep.samples.append({'query': q.name, 'status': q.result['status'], 'paths': q.result.get('paths'),
                            'cpu_s': q.result.get('cpu_s')})
    paths = sum(int(q.result.get('paths') or 0) for q in qs if q.kind == 'main')
    return rep.finish(
        explanation='CrossHair (z3) symbolic execution of the real supp.umsgpack encoder/decoder; each query is '
                    'a postcondition over symbolic integers/lengths/bytes, "confirmed" = all paths exhausted with no '
                    'model of the negation. Bounds and stubs in coverage.bounds / assumptions.',
        rule='one obligation per harness function (sliced by selector ranges for parallelism); a path is one '
             'feasible branch combination through the real code, standing for all integers satisfying its constraints',
        extra_cov={'states': max(1, paths), 'transitions': max(1, paths),
                   'traces_validated_against_impl': rep.validation.get('pstruct_vs_struct_points', 0)})


def replay_file(obj):
    class Q:
        meta = obj.get('meta') or {'fn': obj.get('fn')}
        name = obj.get('query')
    v = replay(Q, obj['args'], obj.get('kwargs') or {})
    if v.get('violated'):
        print('VIOLATION property=%s replay=%s' % (PID, 'given'))
        print('  ' + v['what'])
        return 1
    print('not reproduced')
    return 0
