"""C07 module resolution vs the import system."""
import importlib.machinery
import importlib.util
import itertools
import os
import random
import shutil
import sys

from props.simple import copy_fn, report_violation
from vlib import runner
from vlib.runner import Query, Report

PID = 'C07'
H = os.path.join(runner.VERIF, 'harness', 'h_c07.py')


def real_find(roots, name):
    """what the real import system would load (PathFinder, recursing through parent packages) -> file or None"""
    parts = name.split('.')
    path = list(roots)
    spec = None
    for i in range(len(parts)):
        spec = importlib.machinery.PathFinder.find_spec('.'.join(parts[:i + 1]), path)
        if spec is None:
            return None
        if i + 1 < len(parts):
            if not spec.submodule_search_locations:
                return None
            path = list(spec.submodule_search_locations)
    return spec.origin


def validate_model(rep, h, seed, n):
    """materialise sampled universes on disk and compare the model with the real PathFinder / pkgutil"""
    import pkgutil
    rnd = random.Random(seed)
    base = os.path.join(runner.WORK, PID, 'fs')
    checked = 0
    for _ in range(n):
        kinds = [rnd.randint(0, 3), rnd.randint(0, 1), rnd.randint(0, 2), rnd.randint(0, 1), rnd.randint(0, 1),
                 rnd.randint(0, 3), rnd.randint(0, 1), rnd.randint(0, 2), rnd.randint(0, 1), rnd.randint(0, 1)]
        swap = rnd.random() < 0.5
        files, roots = h.universe(kinds, swap)
        shutil.rmtree(base, ignore_errors=True)
        for f in files:
            p = base + f
            os.makedirs(os.path.dirname(p), exist_ok=True)
            open(p, 'w').close()
        for r in h.ROOTS:
            os.makedirs(base + r, exist_ok=True)
        rroots = [base + r for r in roots]
        importlib.invalidate_caches()
        sys.path_importer_cache.clear()
        for name in h.NAMES:
            want = h.model_find(files, roots, name)
            real = real_find(rroots, name)
            real = real[len(base):] if real else None
            checked += 1
            if want != real:
                rep.harness_error('PathFinder model: %s in %r roots %r: model %r, importlib %r' % (name, sorted(files), roots, want, real))
        for pkg in ('zqp', 'zqp.sub'):
            want = h.model_children(files, roots, pkg)
            f = real_find(rroots, pkg)
            if f is None or not f.endswith('__init__.py'):
                real = None
            else:
                real = set(m.name for m in pkgutil.iter_modules([os.path.dirname(f)]))
            checked += 1
            if want != real:
                rep.harness_error('child listing model: %s in %r: model %r, pkgutil %r' % (pkg, sorted(files), want, real))
    shutil.rmtree(base, ignore_errors=True)
    rep.validation['pathfinder_model_vs_importlib_points'] = checked


def replay(q, args, kwargs):
    h = runner.load_module(H, 'h_c07_native')
    fn = q.meta['fn']
    ok = getattr(h, fn)(*args)
    if ok:
        return {'violated': False}
    what = '%s%r is false on the real code (in-memory file system)' % (fn, tuple(args))
    if fn in ('get_module_vs_model', 'list_packages_vs_model'):
        files, roots = h.universe(list(args[2:]), bool(args[1]))
        if fn == 'get_module_vs_model':
            name = h.NAMES[args[0]]
            got, want = h.resolve_one(name, files, roots)
            what = 'roots %r, files %r: get_module(%r) -> %r, the import system loads %r' % (roots, sorted(files), name, got, want)
            # confirm the model's answer against the real import system on disk
            base = os.path.join(runner.WORK, PID, 'replayfs')
            shutil.rmtree(base, ignore_errors=True)
            for f in files:
                os.makedirs(os.path.dirname(base + f), exist_ok=True)
                open(base + f, 'w').close()
            importlib.invalidate_caches()
            sys.path_importer_cache.clear()
            real = real_find([base + r for r in roots], name)
            real = real[len(base):] if real else None
            shutil.rmtree(base, ignore_errors=True)
            if real != h.model_find(files, roots, name):
                raise RuntimeError('PathFinder model disagrees with importlib on the candidate')
        else:
            pkg = ('zqp', 'zqp.sub')[args[0]]
            what = 'roots %r, files %r: list_packages(%r) differs from what importlib can enumerate %r' % (
                roots, sorted(files), pkg, sorted(h.model_children(files, roots, pkg) or []))
    return {'violated': True, 'known': None, 'what': what, 'replay': {'fn': fn, 'args': args}}


def run(tier, seed):
    rep = Report(PID, tier, seed, 'other')
    runner.workdir(PID)
    h = runner.load_module(H, 'h_c07_setup')
    validate_model(rep, h, seed, 60 if tier == 'quick' else 400)
    src = open(H).read()
    qs = []
    for depth in range(5):
        for dots in range(1, 6):
            new = 'norm_d%d_k%d' % (depth, dots)
            qs.append(Query(new, src + '\n\n' + copy_fn(src, 'norm_vs_importlib', new, 'depth == %d and dots == %d' % (depth, dots)),
                            new, 'main', 150, per_path=30, meta={'fn': 'norm_vs_importlib'}, label='S'))
    for n in range(8):
        for swap in (False, True):
            pre = 'n == %d and swap == %s' % (n, swap)
            new = 'getmod_n%d_s%d' % (n, swap)
            qs.append(Query(new, src + '\n\n' + copy_fn(src, 'get_module_vs_model', new, pre), new, 'main', 300, per_path=30,
                            meta={'fn': 'get_module_vs_model'}, label='S'))
    for k in range(2):
        for swap in (False, True):
            pre = 'k == %d and swap == %s' % (k, swap)
            new = 'listpk_k%d_s%d' % (k, swap)
            qs.append(Query(new, src + '\n\n' + copy_fn(src, 'list_packages_vs_model', new, pre), new, 'main', 300, per_path=30,
                            meta={'fn': 'list_packages_vs_model'}, label='S'))
    for ln in range(6):
        new = 'split_join_%d' % ln
        qs.append(Query(new, src + '\n\n' + copy_fn(src, 'split_join', new, 'len(p) == %d' % ln), new, 'main', 150, per_path=30,
                        meta={'fn': 'split_join'}, label='S'))
    for fn, pre in (('norm_vs_importlib', 'depth == 2 and dots == 1'), ('get_module_vs_model', 'n == 0'),
                    ('list_packages_vs_model', 'k == 0'), ('split_join', 'len(p) == 3')):
        qs.append(Query(fn + '__twin', src + '\n\n' + copy_fn(src, fn, fn + '__twin', pre, twin=True), fn + '__twin', 'twin', 120,
                        meta={'fn': fn}))
    runner.run_queries(PID, qs)
    rep.absorb(qs, replay)
    rep.functions = ['Project.norm_package (+ _norm_cache)', 'Project.get_module', 'Project.package_dirs', 'Project.get_path',
                     'Project.list_packages', 'SUFFIXES loop', 'SourceModule.__init__', 'util.split_pkg', 'util.join_pkg']
    rep.bounds = ['(a) 1..5 leading dots, tail in {"", m, m.n, q}, file 0..4 directories deep, one symbolic bool per directory '
                  '"has __init__.py", three calls on one project (cache)',
                  '(b),(c) two source roots in either order; per root 8 candidate files (module / package / extension module named zqm, '
                  'package zqp with sub module, sub package, extension, leaf) each present or absent (2^16 trees, symbolic bools); 8 requested names',
                  '(d) all strings over {a, b, .} up to length 5']
    rep.assumptions = ['file system = in-memory stub (supp.project.os rebound); sys.path not consulted (Project.get_path stubbed to the source roots); '
                       '__import__ of extension modules faked',
                       'PathFinder / pkgutil behaviour modelled in the harness and validated against the real importlib on materialised trees every run',
                       'outside: PEP 420 namespace packages, module file + package directory (or source + extension file) of one name in one directory, '
                       '.pyc-only modules, zip imports, builtin/frozen modules']
    for q in qs[:3]:
        rep.samples.append({'query': q.name, 'status': q.result['status'], 'paths': q.result.get('paths')})
    return rep.finish('CrossHair over the real Project.norm_package / get_module / list_packages with a symbolic file system '
                      '(one solver bool per candidate file), compared with importlib.util.resolve_name (real) and a PathFinder model.',
                      'one obligation per slice; a path is one set of outcomes of the os.path.exists calls actually made')


def replay_file(obj):
    class Q:
        meta = {'fn': obj['fn']}
    return report_violation(PID, replay(Q, obj['args'], {}))
