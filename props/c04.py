"""C04: answers do not depend on which positions were queried before.  Differential: one shared analysis
state queried in a solver-chosen order vs a fresh state per read; identifiers symbolic (T-mode)."""
import math
import random

from props import tprops
from vlib import runner, family, tharness
from vlib.runner import Query, Report

PID = 'C04'

TEMPLATE = '''\
from vlib import tharness as T
T.setup_symbolic()
H = T.TH(%(shape)r, 'C04')
PATHS = [0]


def check(o: int, %(sig)s) -> bool:
    """
    pre: 0 <= o < %(nperm)d
    pre: %(pre)s
    post: _
    """
    PATHS[0] += 1
    return H.run_order([%(args)s], o)


def check_twin(o: int, %(sig)s) -> bool:
    """
    pre: 0 <= o < %(nperm)d
    pre: %(pre)s
    post: _
    """
    H.run_order([%(args)s], o)
    return not H.reached
'''


def src(shape):
    n = len(shape.groups)
    names = ['n%d' % i for i in range(n)]
    pre = ' and '.join('len(%s) == %d' % (x, tharness.IDLEN) for x in names)
    pre += ' and ' + ' and '.join('%s != %r' % (x, tharness.BKEY) for x in names)
    return TEMPLATE % dict(shape=shape.name, sig=', '.join('%s: str' % x for x in names), pre=pre,
                           args=', '.join(names), nperm=math.factorial(len(shape.reads())))


def has_loop(body):
    for s in body:
        if s[0] in ('for', 'while'):
            return True
        for part in s[1:]:
            if isinstance(part, list) and part and isinstance(part[0], tuple) and has_loop([x for x in part if isinstance(x, tuple) and isinstance(x[0], str)]):
                return True
    return False


def select(tier, seed):
    out = []
    for sh in tharness.all_shapes():
        k = len(sh.reads())
        if k < 2 or k > (4 if tier == 'thorough' else 3):
            continue
        if len(sh.groups) > (5 if tier == 'thorough' else 4):
            continue
        if len(sh.slots) > 9:
            continue
        out.append(sh)
    loops = [s for s in out if 'for' in family.canonical(s) or 'while' in family.canonical(s)]
    ctrl = [s for s in out if s not in loops]
    rnd = random.Random(seed + 4)
    rnd.shuffle(ctrl)
    if tier == 'quick':
        rnd.shuffle(loops)
        named = [s for s in loops if not s.name.startswith('enum_')]
        loops = named + [s for s in loops if s.name.startswith('enum_')][:40]
    return loops + ctrl[:10 if tier == 'quick' else 40]


def replay(q, args, kwargs):
    shape = tharness.shape_by_name(q.meta['shape'])
    o, names = args[0], args[1:]
    c, b = tprops.pattern_of(names)
    cls = {s: c[shape.var_of[s]] for s in shape.slots}
    order = tharness.perms(shape.reads())[o]
    res = tharness.native_order_case(shape, cls, b, order)
    if not res['problems']:
        return {'violated': False}
    return {'violated': True, 'known': None,
            'what': 'C04 on\n%s  query order %r -> %s' % (tprops._indent(res['text']), order, '; '.join(res['problems'])),
            'replay': {'shape': shape.name, 'pattern': [cls[s] for s in shape.slots], 'order': order}}


def custom(tier, seed):
    def go(rep):
        shapes = select(tier, seed)
        qs = []
        for sh in shapes:
            n, k = len(sh.groups), len(sh.reads())
            timeout = (120 if tier == 'quick' else 400) * (3 if sh.name.startswith('nested_loops') else 1)
            qs.append(Query(sh.name, src(sh), 'check', 'main', timeout, per_path=30, meta={'shape': sh.name}, label='S'))
        for sh in shapes[:3]:
            qs.append(Query(sh.name + '__twin', src(sh), 'check_twin', 'twin', 60, meta={'shape': sh.name}))
        # evaluator / project level histories (E)
        import os
        from props.simple import copy_fn
        HE = os.path.join(runner.VERIF, 'harness', 'h_c04e.py')
        root = os.path.join(runner.WORK, PID, 'proj')
        os.environ['VERIF_C04_ROOT'] = root
        he = runner.load_module(HE, 'h_c04e_setup')
        he.materialise(root)
        se = open(HE).read()
        eq = []
        for a in range(he.NREQ):
            new = 'hist_a%02d' % a
            eq.append(Query(new, se + '\n\n' + copy_fn(se, 'check', new, 'a == %d' % a + (' and n == 2' if tier == 'quick' and a % 3 else '')),
                            new, 'main', 300, per_path=60, meta={'h': 'e'}, label='E'))
        eq.append(Query('hist__twin', se + '\n\n' + copy_fn(se, 'check', 'hist__twin', 'n == 2 and a == 0 and b == 0', twin=True),
                        'hist__twin', 'twin', 60, meta={'h': 'e'}))

        def replay_e(q, args, kwargs):
            h2 = runner.load_module(HE, 'h_c04e_native')
            h2.materialise(root)
            n, a, b, c = args
            hist = [a, b, c][:n]
            bad = h2.problems(hist)
            if not bad:
                return {'violated': False}
            return {'violated': True, 'known': None, 'what': bad[0], 'replay': {'history': hist}}
        # lint vs the same position queried alone, on programs with several reads per line (E)
        HL = os.path.join(runner.VERIF, 'harness', 'h_c04l.py')
        hl = runner.load_module(HL, 'h_c04l_setup')
        sl = open(HL).read()
        lq = []
        for lo in range(0, hl.NPROG, 10):
            new = 'lintline_%03d' % lo
            lq.append(Query(new, sl + '\n\n' + copy_fn(sl, 'check', new, '%d <= case < %d' % (lo, min(hl.NPROG, lo + 10))), new, 'main', 300,
                            per_path=60, meta={'h': 'l'}, label='E'))
        lq.append(Query('lintline__twin', sl + '\n\n' + copy_fn(sl, 'check', 'lintline__twin', 'case == 0', twin=True), 'lintline__twin', 'twin', 60,
                        meta={'h': 'l'}))

        def replay_l(q, args, kwargs):
            h3 = runner.load_module(HL, 'h_c04l_native')
            bad = h3.problems(args[0])
            if not bad:
                return {'violated': False}
            return {'violated': True, 'known': None, 'what': 'C04 (lint vs the position alone) on\n%s  -> %s' % (tprops._indent(h3.PROGRAMS[args[0]]), bad[0]),
                    'replay': {'lint_case': args[0], 'text': h3.PROGRAMS[args[0]]}}
        runner.run_queries(PID, qs + eq + lq)
        rep.absorb(qs, replay)
        rep.absorb(eq, replay_e)
        rep.absorb(lq, replay_l)
        rep.bounds_extra = ['lint vs the same position queried alone: %d programs with several reads and bindings on one physical line '
                            '(13 hand-written one-liners; every family program in the layout that joins as many statements as the parser allows)' % hl.NPROG]
        # natively, through the public API: lint (all reads of one analysis) vs fresh queries, canonical namings
        n = 0
        for sh in shapes:
            for part in family.var_partitions(sh, 8):
                if tharness.compiles(sh, part, []):
                    r = tharness.native_order_case(sh, part, [], sh.reads())
                    n += 1
                    for b in r['problems'][:1]:
                        rep.violation('C04 (public API) on\n%s  -> %s' % (tprops._indent(r['text']), b),
                                      {'shape': sh.name, 'pattern': [part[s] for s in sh.slots], 'order': sh.reads()})
        rep.validation['lint_vs_fresh_native_cases'] = n
        rep.functions = ['supp.nast.extract', 'Flow.names/parent_names (memo slots)', 'LoopFlow.names/_resolving/resolving',
                         'Flow.names_at', 'util.cached_property', 'MultiName', 'linter.lint (native cross-check)',
                         'evaluator level (E): Project._module_cache, SourceModule.scope, ClassObject._attrs/bases, InstanceValue._attrs/_assigned, '
                         'context_property memos, ImportedName._ref, MultiValue._rvalues through assist/location/lint']
        rep.bounds = ['%d shapes with 2..%d reads; every permutation of the reads as query history (solver-chosen, enumerated: E); '
                      'identifiers symbolic (S)' % (len(shapes), 4 if tier == 'thorough' else 3),
                      'evaluator level: every history of 2 (and, for a third of the first requests in quick, 3) requests out of %d ' % he.NREQ + 
                      '(instance / class / module attribute completion and definition, star-import lint) on one Project without edits; histories with edits are C09'] + rep.bounds_extra
        rep.assumptions = ['same stubs as C01-C03 (symbolic containers, UndefinedName marker, find_id_loc, builtin table)',
                           'oracle: the same real code on a fresh analysis state (pure differential)']
        for q in qs[:6]:
            rep.samples.append({'shape': q.name, 'text': family.canonical(tharness.shape_by_name(q.meta['shape'])),
                                'status': q.result['status'], 'paths': q.result.get('paths')})
        return rep.finish('CrossHair over the real extractor: one shared analysis state queried in every order of its read '
                          'sites (order = solver variable) with symbolic identifiers, compared with a fresh state per read.',
                          'one obligation per shape; paths = equality patterns x query orders')
    return go


def run(tier, seed):
    return tprops.run(PID, tier, seed, '', [], [], [], custom=custom(tier, seed))


def replay_file(obj):
    if 'lint_case' in obj:
        import os
        h3 = runner.load_module(os.path.join(runner.VERIF, 'harness', 'h_c04l.py'), 'h_c04l_native')
        bad = h3.problems(obj['lint_case'])
        if bad:
            print('VIOLATION property=%s replay=given' % PID)
            print('  ' + bad[0])
            return 1
        print('not reproduced')
        return 0
    if 'history' in obj:
        import os
        HE = os.path.join(runner.VERIF, 'harness', 'h_c04e.py')
        root = os.path.join(runner.WORK, PID, 'proj')
        os.environ['VERIF_C04_ROOT'] = root
        he = runner.load_module(HE, 'h_c04e_native')
        he.materialise(root)
        bad = he.problems(obj['history'])
        if bad:
            print('VIOLATION property=%s replay=given' % PID)
            print('  ' + bad[0])
            return 1
        print('not reproduced')
        return 0
    shape = tharness.shape_by_name(obj['shape'])
    cls = dict(zip(shape.slots, obj['pattern']))
    res = tharness.native_order_case(shape, cls, [], obj['order'])
    print(res['text'])
    if res['problems']:
        print('VIOLATION property=%s replay=given' % PID)
        print('  ' + '; '.join(res['problems']))
        return 1
    print('not reproduced')
    return 0
