from props import tprops

PID = 'C05'


def run(tier, seed):
    return tprops.run(PID, tier, seed, explanation=EXPL, functions=FUNCS, bounds=BOUNDS, assumptions=[])


def replay_file(obj):
    return tprops.replay_file(PID, obj)


FUNCS = ['supp.nast.extract (all visit_*)', 'Flow.add_name/names/parent_names/names_at', 'LoopFlow.names',
         'MergedDict', 'MultiName', 'FuncScope/ClassScope.__init__', 'Scope.locals/globals/nonlocals',
         'SourceScope.names', 'ClassScope.names', 'insert_loc', 'get_expr_end', 'get_indexes_for_target']
EXPL = ('Same harness: for every read and every alternative supp returns, Name.scope must be the scope in which the '
        'reference semantics (validated against CPython) binds that site, and must be one of the scopes that own the '
        'name for that read at run time (local / enclosing function cell / module); comprehension targets count as '
        'bindings of the enclosing scope; reads directly in a class body only for names the class does not bind.')
BOUNDS = ['nesting skeletons among the named shapes (def in def, class in def, def in class, lambda, comprehension in '
          'class, global, nonlocal) plus the enumerated structured shapes; the standard-library corpus is outside the technique']
