"""C08 totality of lint / assist / location (solver-enumerated cursor, program and typing-state mutation)."""
import os

from props.simple import copy_fn, report_violation
from vlib import runner
from vlib.runner import Query, Report

PID = 'C08'
H = os.path.join(runner.VERIF, 'harness', 'h_c08.py')


def _setup():
    root = os.path.join(runner.WORK, PID, 'proj')
    os.makedirs(root, exist_ok=True)
    os.environ['VERIF_C08_ROOT'] = root
    h = runner.load_module(H, 'h_c08_native')
    h.materialise(root)
    return h


def replay(q, args, kwargs):
    import logging
    logging.disable(logging.CRITICAL)
    h = _setup()
    prog, mut, pos = args
    if pos >= len(h.POSITIONS[prog]):
        return {'violated': False}
    line, col = h.POSITIONS[prog][pos]
    bad = h.problems(prog, mut, line, col)
    if not bad:
        return {'violated': False}
    text = h.mutate(h.PROGRAMS[prog], mut, line, col)
    return {'violated': True, 'known': None,
            'what': 'cursor (%d, %d) in %r: %s' % (line, col, text[:200], '; '.join(bad)),
            'replay': {'prog': prog, 'mut': mut, 'pos': pos, 'text': text}}


def run(tier, seed):
    rep = Report(PID, tier, seed, 'other')
    runner.workdir(PID)
    h = _setup()
    src = open(H).read()
    qs = []
    n = h.NPROG
    step = 6 if tier == 'quick' else 3
    muts = range(h.NMUT)
    for lo in range(0, n, step):
        for m in muts:
            new = 'check_%03d_m%d' % (lo, m)
            qs.append(Query(new, src + '\n\n' + copy_fn(src, 'check', new, '%d <= prog < %d and mut == %d' % (lo, min(n, lo + step), m)),
                            new, 'main', 240, per_path=60, meta={}, label='E'))
    qs.append(Query('check__twin', src + '\n\n' + copy_fn(src, 'check', 'check__twin', 'prog == 0 and mut == 0 and pos == 0', twin=True),
                    'check__twin', 'twin', 60))
    runner.run_queries(PID, qs)
    rep.absorb(qs, replay)
    rep.functions = ['supp.linter.lint', 'supp.assistant.assist', 'supp.assistant.location', 'and everything below them '
                     '(nast.extract, evaluator.EvalCtx.evaluate/declarations, name.*, scope.*, project.get_module/norm_package, module.SourceModule)']
    rep.bounds = ['%d programs (%d adversarial: cycles of assignments / classes / functions / imports / star imports, misplaced '
                  'return/yield/break, non-name targets, builtins and compiled modules under the cursor, unknown and relative imports, '
                  'syntax the extractor does not model, broken text; %d family shapes) x 5 typing-state mutations '
                  '(none, line truncated at the cursor, dot inserted, line deleted, file truncated) x every cursor in the first %d lines / %d columns'
                  % (n, len(h.ADVERSARIAL), n - len(h.ADVERSARIAL), h.MAXLINE, h.MAXCOL)]
    rep.assumptions = ['every text reaches the real parser concretely: this check is solver-enumerated (E) only, no stronger than exhausting the stated finite domain',
                       'non-termination can only show as a timeout (inconclusive); RecursionError is reported as a violation',
                       'oracle: real compile() for the E01 clause; standard-library / real-file corpus outside the technique']
    for q in qs[:3]:
        rep.samples.append({'query': q.name, 'status': q.result['status'], 'paths': q.result.get('paths')})
    rep.samples.append({'program': h.PROGRAMS[5], 'mutation': 'dot inserted at the cursor', 'cursor': [3, 12]})
    return rep.finish('CrossHair enumerates (program, mutation, cursor line, cursor column) as solver variables with explicit '
                      'branches; on every path the real lint/assist/location run concretely: lint returns a list with exactly one '
                      'E01 (CPython message and position) iff compile() fails; assist/location return well-formed results and raise '
                      'only SyntaxError, only when the cursor-marked text does not compile.',
                      'one obligation per slice of programs x mutation; a path = one concrete (text, cursor)')


def replay_file(obj):
    class Q:
        meta = {}
    return report_violation(PID, replay(Q, [obj['prog'], obj['mut'], obj['pos']], {}))
