from props import tprops

PID = 'C03'


def run(tier, seed):
    return tprops.run(PID, tier, seed, explanation=EXPL, functions=FUNCS, bounds=BOUNDS, assumptions=[])


def replay_file(obj):
    return tprops.replay_file(PID, obj)


FUNCS = ['supp.nast.extract (all visit_*)', 'Flow.add_name/names/parent_names/names_at', 'LoopFlow.names',
         'MergedDict', 'MultiName', 'FuncScope/ClassScope.__init__', 'Scope.locals/globals/nonlocals',
         'SourceScope.names', 'ClassScope.names', 'insert_loc', 'get_expr_end', 'get_indexes_for_target']
EXPL = ('Same harness as C02, converse inclusion: every binding supp lists for a read reaches it on some structural path, '
        'the possibly-undefined marker is present exactly when some path reaches the read with the name unbound, and a '
        'name unbound on every path (and not builtin) is absent from names_at (lint: E02).')
BOUNDS = ['C03 domain: C02 domain, comprehension variables / except names not read after their construct, a function '
          "name not read in its own decorators/defaults; paths are structural (a failing read does not prune what follows)",
          'loops <= 2 trips']
