from props import tprops

PID = 'C01'


import json
import os
import subprocess

from props.simple import copy_fn
from vlib import runner
from vlib.runner import Query

HI = os.path.join(runner.VERIF, 'harness', 'h_c01i.py')


def _imports_setup():
    """materialise the project of the import-form programs and let real CPython execute each of them"""
    root = os.path.join(runner.WORK, PID, 'proj')
    os.makedirs(root, exist_ok=True)
    os.environ['VERIF_C01_ROOT'] = root
    h = runner.load_module(HI, 'h_c01i_setup')
    h.materialise(root)
    ok = []
    for i, (rel, text) in enumerate(h.PROGRAMS):
        mod = os.path.join(os.path.dirname(rel), 'prog%d' % i).replace('/', '.').lstrip('.')
        r = subprocess.run(['/venv/bin/python', '-c', 'import importlib; importlib.import_module(%r)' % mod], cwd=root,
                           env=dict(os.environ, PYTHONPATH=root), stdout=subprocess.PIPE, stderr=subprocess.PIPE)
        ok.append(r.returncode == 0)
    json.dump(ok, open(os.path.join(root, 'runs_ok.json'), 'w'))
    return h, ok


def _extra(rep, tier):
    h, ok = _imports_setup()
    src = open(HI).read()
    qs = [Query('import_forms', src, 'check', 'main', 200, per_path=60, meta={'extra': True}, label='E'),
          Query('import_forms__twin', src + '\n\n' + copy_fn(src, 'check', 'check__twin', 'case == 0', twin=True), 'check__twin',
                'twin', 60, meta={'extra': True})]
    rep.validation['import_programs_executed_by_cpython'] = sum(ok)
    if sum(ok) < len(ok):
        rep.harness_error('import-form programs that CPython could not execute: %r' % [i for i, x in enumerate(ok) if not x])
    rep.functions_extra = ['scope.SourceScope.resolve_star_imports', 'scope.star_import_names', 'name.ImportedName.resolve',
                           'project.Project.get_nmodule', 'linter.lint', 'assistant.assist']

    def replay(q, args, kwargs):
        import logging
        logging.disable(logging.CRITICAL)
        hh, ok2 = _imports_setup()
        hh.RUNS_OK = ok2
        bad = hh.problems(args[0])
        if not bad:
            return {'violated': False}
        return {'violated': True, 'known': None, 'what': '%s in\n%s' % ('; '.join(bad), hh.PROGRAMS[args[0]][1]),
                'replay': {'import_case': args[0]}}
    return qs, replay


def run(tier, seed):
    return tprops.run(PID, tier, seed, explanation=EXPL, functions=FUNCS, bounds=BOUNDS, assumptions=[], extra=_extra)


def replay_file(obj):
    if 'import_case' in obj:
        h, ok = _imports_setup()
        h.RUNS_OK = ok
        bad = h.problems(obj['import_case'])
        if bad:
            print('VIOLATION property=%s replay=given' % PID)
            print('  ' + '; '.join(bad))
            return 1
        print('not reproduced')
        return 0
    return tprops.replay_file(PID, obj)


FUNCS = ['supp.nast.extract (all visit_*)', 'Flow.add_name/names/parent_names/names_at', 'LoopFlow.names',
         'MergedDict', 'MultiName', 'FuncScope/ClassScope.__init__', 'Scope.locals/globals/nonlocals',
         'SourceScope.names', 'ClassScope.names', 'insert_loc', 'get_expr_end', 'get_indexes_for_target']
EXPL = ('CrossHair symbolic execution of the real nast.extract / Flow.names_at over template trees with symbolic '
        'identifiers; every read that succeeds in some real CPython execution (reference semantics, exhaustive over '
        'branch / trip-count / raise decisions) must carry a flow (else lint says E42) and be visible in '
        'names_at(position) (else E02; the same table feeds name completion).')
BOUNDS = ['(E) 19 import-form programs (import / from / star / dotted / as / relative, project modules and stdlib, module / function / class level), executed by CPython first, through real lint() and assist()', 'C01 grammar without imports (symbolic part), match, del; loops <= 2 trips; call depth <= 3; executions are CPython-strict '
          '(a failing read raises NameError)']
