from props import tprops

PID = 'C01'


def run(tier, seed):
    return tprops.run(PID, tier, seed, explanation=EXPL, functions=FUNCS, bounds=BOUNDS, assumptions=[])


def replay_file(obj):
    return tprops.replay_file(PID, obj)


FUNCS = ['supp.nast.extract (all visit_*)', 'Flow.add_name/names/parent_names/names_at', 'LoopFlow.names',
         'MergedDict', 'MultiName', 'FuncScope/ClassScope.__init__', 'Scope.locals/globals/nonlocals',
         'SourceScope.names', 'ClassScope.names', 'insert_loc', 'get_expr_end', 'get_indexes_for_target']
EXPL = ('CrossHair symbolic execution of the real nast.extract / Flow.names_at over template trees with symbolic '
        'identifiers; every read that succeeds in some real CPython execution (reference semantics, exhaustive over '
        'branch / trip-count / raise decisions) must carry a flow (else lint says E42) and be visible in '
        'names_at(position) (else E02; the same table feeds name completion).')
BOUNDS = ['C01 grammar without imports, match, del; loops <= 2 trips; call depth <= 3; executions are CPython-strict '
          '(a failing read raises NameError)']
