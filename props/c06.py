"""C06 attribute completion / definition follow Python's lookup order (solver-enumerated hierarchies)."""
import os

from props.simple import copy_fn, report_violation
from vlib import runner
from vlib.runner import Query, Report

PID = 'C06'
H = os.path.join(runner.VERIF, 'harness', 'h_c06.py')


def replay(q, args, kwargs):
    import logging
    logging.disable(logging.CRITICAL)
    h = runner.load_module(H, 'h_c06_native')
    if q.meta.get('h') == 'chain':
        bad = h.chain_problems(*args)
        if not bad:
            return {'violated': False}
        files = h.chain_build(*args)[0]
        text = ''.join('--- %s\n%s' % (p, t) for p, t in sorted(files.items()))
        return {'violated': True, 'known': None, 'what': '%s\n%s' % ('; '.join(bad), text), 'replay': {'chain_args': args}}
    hh, m0, m1, m2, m3, extra, form, attr, via = args
    n = len(h.HIER[hh])
    ms = [m0, m1 if n > 1 else 10, m2 if n > 2 else 10, m3 if n > 3 else 10]
    mem = h.decode(hh, *ms, extra)
    v = ('instance', 'class', 'self')[via]
    bad = h.problems(hh, mem, h.FORMS[form], attr, v)
    if not bad:
        return {'violated': False}
    files = h.build(hh, mem, h.FORMS[form], attr, v)[0]
    text = ''.join('--- %s\n%s' % (p, t) for p, t in sorted(files.items()))
    return {'violated': True, 'known': None, 'what': '%s\n%s' % ('; '.join(bad), text), 'replay': {'args': args}}


def run(tier, seed):
    rep = Report(PID, tier, seed, 'other')
    runner.workdir(PID)
    src = open(H).read()
    h = runner.load_module(H, 'h_c06_setup')
    qs = []
    # quick: per class one of {method aa, method bb, class variable aa, self.aa in __init__, self.bb in another method,
    # property bb, nothing}; thorough: all 11 options and the second member of the root class
    QUICK = '(m%d == 0 or m%d == 1 or m%d == 2 or m%d == 4 or m%d == 7 or m%d == 9 or m%d == 10)'
    for hh in range(len(h.HIER)):
        n = len(h.HIER[hh])
        for via in range(3):
            for form in range(4):
                if tier == 'quick' and form in (1, 3) and hh not in (0, 1):
                    continue
                pre = 'h == %d and via == %d and form == %d' % (hh, via, form)
                if tier == 'quick':
                    # a second member in the root class only where it can matter for a shared class object: a class
                    # variable and a self-assignment of one name in a root class that lives in lib.py
                    pre += ' and (extra == 10 or (extra == 4 and m0 == 2))' if form != 0 else \
                        (' and (extra == 10 or extra == 11)' if hh <= 1 else ' and extra == 10')     # 11: a bare self.aa: int annotation
                    for i in range(n):
                        pre += ' and ' + QUICK % ((i,) * 7)
                    if n == 4:
                        pre += ' and m0 != 10 and m0 != 1 and m3 != 9 and m3 != 2 and m1 != 9 and m1 != 0 and m2 != 7 and m2 != 1'
                    new = 'check_h%d_v%d_f%d' % (hh, via, form)
                    qs.append(Query(new, src + '\n\n' + copy_fn(src, 'check', new, pre), new, 'main', 400, per_path=60, meta={}, label='E'))
                else:
                    # thorough: every import form for every hierarchy, more second members of the root class; hierarchies of
                    # up to 2 classes take all 11 member options per class, larger ones the quick option set (a run with all
                    # options everywhere did not finish in 4 hours)
                    if n <= 2:
                        pre += ' and (extra == 10 or extra == 3 or extra == 4 or extra == 11 or extra == 12)'
                    else:
                        pre += ' and (extra == 10 or extra == 4)'
                        for i in range(n):
                            pre += ' and ' + QUICK % ((i,) * 7)
                        if n == 4:
                            pre += ' and m0 != 10 and m0 != 1 and m3 != 9 and m3 != 2 and m1 != 9 and m1 != 0 and m2 != 7 and m2 != 1'
                    new = 'check_h%d_v%d_f%d' % (hh, via, form)
                    qs.append(Query(new, src + '\n\n' + copy_fn(src, 'check', new, pre), new, 'main', 3000, per_path=60, meta={}, label='E'))
    qs.append(Query('check__twin', src + '\n\n' + copy_fn(src, 'check', 'check__twin',
                                                        'h == 1 and via == 0 and form == 0 and m0 == 0 and m1 == 0 and extra == 10 and attr == 0', twin=True),
                    'check__twin', 'twin', 60))
    qs.append(Query('check_chain', src, 'check_chain', 'main', 300, per_path=60, meta={'h': 'chain'}, label='E'))
    qs.append(Query('check_chain__twin', src + '\n\n' + copy_fn(src, 'check_chain', 'check_chain__twin', 'dk == 2 and depth == 0 and form == 0 and via == 0', twin=True),
                    'check_chain__twin', 'twin', 60, meta={'h': 'chain'}))
    runner.run_queries(PID, qs)
    rep.absorb(qs, replay)
    rep.functions = ['FuncScope.resolve (descriptor-decorated methods)', 'assistant.assist (attribute branch)', 'assistant.location', 'EvalCtx.evaluate/declarations',
                     'ClassObject._attrs/bases/_cls_attrs', 'InstanceValue._attrs/_assigned', 'SourceScope.assigns',
                     'FuncScope.get_argument/resolve', 'ImportedName.resolve', 'SourceModule', 'resolve_star_imports']
    rep.bounds = ['9 hierarchy shapes (1..4 classes, source and builtin bases mixed in either order, single and multiple inheritance without repeated ancestors, a builtin base), one member per '
                  'class (+ a second one in the root class) of kind method / class variable / self-assignment in __init__ / self-assignment in '
                  'another method / property or none, names from a 2-name alphabet (overrides at every level), root class in the same module or '
                  'reached by from-import / module attribute / star import, queried through an instance, the class, or self in a subclass method'
                  + (' (quick: 7 of 11 member options per class, reduced second-member options and import forms; thorough: all options for hierarchies of <= 2 classes, all import forms)')]
    rep.bounds.append('split forms are asked twice: on a fresh project and on a project that has already answered the same question through the other access path (class <-> instance)')
    rep.bounds.append('descriptor chains: obj.aa.zz where aa is decorated by property / a descriptor class with its own __get__ / one inheriting __get__ over 1-2 levels / '
                      'from a base in another module, x 0..2 subclasses x same module or lib.py x instance / self (60 programs)')
    rep.assumptions = ['solver-enumerated (E): every path is one concrete generated project (in-memory files) through the real assist()/location()',
                       'oracle: the classes are executed by CPython (__mro__, vars()); "instance assignment if there is one" is syntactic (any '
                       'self.attr = ... in a method of a class of the MRO)',
                       'metaclasses, __getattr__, __slots__, dynamic setattr, data-descriptor precedence outside']
    for q in qs[:3]:
        rep.samples.append({'query': q.name, 'status': q.result['status'], 'paths': q.result.get('paths')})
    return rep.finish('CrossHair enumerates hierarchy shape, member kinds/names, import form, queried attribute and access path as solver '
                      'variables; on each path the real assist()/location() run on the generated project and are compared with Python\'s lookup '
                      'order obtained by executing the classes.', 'one obligation per (hierarchy, access path, import form)')


def replay_file(obj):
    class Q:
        meta = {'h': 'chain'} if 'chain_args' in obj else {}
    return report_violation(PID, replay(Q, obj.get('chain_args') or obj['args'], {}))
