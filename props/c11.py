"""C11 reported positions: (S) def/class headers with symbolic name through the real find_def_loc;
(E) import statements over colliding identifiers; (E) every binding of a program family through
all_names / lint / location."""
import os

from props.simple import copy_fn, report_violation
from vlib import runner
from vlib.runner import Query, Report

PID = 'C11'
H = os.path.join(runner.VERIF, 'harness', 'h_c11.py')


def replay(q, args, kwargs):
    root = os.path.join(runner.WORK, PID, 'proj')
    os.environ['VERIF_C11_ROOT'] = root
    h = runner.load_module(H, 'h_c11_native')
    h.materialise(root)
    fn = q.meta['fn']
    if fn == 'header':
        kind, name, ind, n1, n2, deco = args[:6]
        cont = args[6] if len(args) > 6 else kwargs.get('cont', 0)
        ok = h.header(kind, name, ind, n1, n2, deco, cont)
        if ok:
            return {'violated': False}
        kw = ['def', 'async def', 'class'][kind]
        tail = name + ' ' * n2 + ('(object):' if kind == 2 else '(self):') + '\n'
        text = ('class outer:\n' if ind else '') + ('    ' * ind + '@deco\n' if deco else '') + \
            ('    ' * ind + kw + ' \\\n' + ' ' * n1 + tail if cont else '    ' * ind + kw + ' ' * n1 + tail) + \
            '    ' * ind + '    pass\n'
        # confirm on the real text through the public path (real parser, unstubbed supp)
        import importlib
        import supp.scope
        from supp.project import Project
        from supp.util import Source
        from supp.nast import extract_scope
        sc = extract_scope(Source(text, 'f.py'), Project(['/nonexistent-root']))
        lines = text.split('\n')
        bad = [(n.name, n.declared_at) for f, n in sc.all_names
               if n.name == name and lines[n.declared_at[0] - 1][n.declared_at[1]:n.declared_at[1] + len(name)] != name]
        want_col = n1 if cont else 4 * ind + len(kw) + n1
        bad += [(n.name, n.declared_at) for f, n in sc.all_names if n.name == name and n.declared_at[1] != want_col]
        if not bad:
            return {'violated': False}
        return {'violated': True, 'known': None, 'what': 'position of %r reported as %r in\n%s' % (name, bad[0][1], text),
                'replay': {'fn': 'header', 'args': args}}
    if fn == 'imports':
        form, mi, xi, yi, zi, s1, s2, s3 = args
        if h.imports_concrete(form, h.IDS[mi], h.IDS[xi], h.IDS[yi], h.IDS[zi], s1, s2, s3):
            return {'violated': False}
        return {'violated': True, 'known': None,
                'what': 'import form %d with names %r: a bound alias is reported at the wrong position'
                        % (form, (h.IDS[mi], h.IDS[xi], h.IDS[yi], h.IDS[zi])), 'replay': {'fn': 'imports', 'args': args}}
    case = args[0]
    bad = h.cross_file_ok(h.PROGRAMS[case]) if h.PROGRAMS[case] in h.CROSS else h.bindings_ok(h.PROGRAMS[case])
    if not bad:
        return {'violated': False}
    return {'violated': True, 'known': None, 'what': '%s in\n%s' % ('; '.join(bad[:3]), h.PROGRAMS[case]),
            'replay': {'fn': 'all_bindings', 'args': args}}


def run(tier, seed):
    rep = Report(PID, tier, seed, 'other')
    runner.workdir(PID)
    root = os.path.join(runner.WORK, PID, 'proj')
    os.environ['VERIF_C11_ROOT'] = root
    h = runner.load_module(H, 'h_c11_setup')
    h.materialise(root)
    src = open(H).read()
    # the solver-enumerated parts run on concrete strings: they use the untransformed supp (the equality-only containers
    # are quadratic on the standard-library modules these programs import)
    src_e = src.replace('symcont.install()\n', '')
    assert src_e != src
    qs = []
    for kind in range(3):
        for ln in ((1, 2, 3) if tier == 'quick' else (1, 2, 3, 4, 5)):
            for ind in range(2):
                new = 'header_k%d_l%d_i%d' % (kind, ln, ind)
                qs.append(Query(new, src + '\n\n' + copy_fn(src, 'header', new, 'kind == %d and len(name) == %d and ind == %d' % (kind, ln, ind)),
                                new, 'main', 200 if tier == 'quick' else 500, per_path=60, meta={'fn': 'header'}, label='S'))
    for form in range(9):
        for mi in range(3):
            new = 'imports_f%d_m%d' % (form, mi)
            qs.append(Query(new, src_e + '\n\n' + copy_fn(src, 'imports', new, 'form == %d and mi == %d' % (form, mi)),
                            new, 'main', 200, per_path=60, meta={'fn': 'imports'}, label='E'))
    n = h.NPROG
    for lo in range(0, n, 8):
        new = 'all_bindings_%03d' % lo
        qs.append(Query(new, src_e + '\n\n' + copy_fn(src, 'all_bindings', new, '%d <= case < %d' % (lo, min(n, lo + 8))),
                        new, 'main', 200, per_path=60, meta={'fn': 'all_bindings'}, label='E'))
    for fn, pre in (('header', 'kind == 1 and len(name) == 2 and ind == 0'), ('imports', 'form == 7 and mi == 0'), ('all_bindings', 'case == 0')):
        qs.append(Query(fn + '__twin', (src if fn == 'header' else src_e) + '\n\n' + copy_fn(src, fn, fn + '__twin', pre, twin=True), fn + '__twin', 'twin', 90,
                        meta={'fn': fn}))
    runner.run_queries(PID, qs)
    rep.absorb(qs, replay)
    rep.functions = ['SourceScope.find_id_loc', 'SourceScope.find_def_loc', 'FuncScope.__init__', 'ClassScope.__init__',
                     'extract_visitor.visit_Import/visit_ImportFrom/alias_loc', 'util.np', 'SourceScope.all_names',
                     'linter.lint (W01/W02 positions)', 'assistant.location']
    rep.bounds = ['(S) def / async def / class headers: name = any string of 1..3 (thorough: 1..5) letters of "acdefilmoprsty" (so that it can collide with '
                  'keywords of the header) except Python keywords, 1..3 spaces before and 0..2 after the name, optional decorator, top level or nested, optional backslash continuation between keyword and name',
                  '(E) 9 import statement forms (plain, as, several aliases, dotted, x as y + y as x, parenthesised over two lines) x 3*5*5*3 '
                  'identifiers chosen to collide with "from", "import", "as" and with each other x spacing',
                  '(E) %d programs: every binding kind; text at the reported position is the identifier ("except" for except-as); '
                  'lint and location() report the positions all_names has' % n]
    rep.assumptions = ['(S) part: Source.lines pre-filled from the symbolic pieces, template AST node with the matching position; '
                       "supp's dict/set displays rewritten to equality-only containers (vlib/symcont.py)",
                       'ASCII only; the 50-line search window of find_id_loc is not exceeded']
    for q in qs[:3]:
        rep.samples.append({'query': q.name, 'status': q.result['status'], 'paths': q.result.get('paths')})
    return rep.finish('CrossHair over the real position-recovery code: header lines built from a symbolic identifier and spacing; '
                      'the reported position must be where the harness put the identifier. Imports and whole programs are '
                      'solver-enumerated.', 'one obligation per (kind, name length, nesting) / import form / program slice')


def replay_file(obj):
    class Q:
        meta = {'fn': obj['fn']}
    return report_violation(PID, replay(Q, obj['args'], {}))
