"""C09 cache transparency (long-lived Project vs fresh Project), symbolic modification times."""
import json
import os

from props.simple import copy_fn, report_violation
from vlib import runner
from vlib.runner import Query, Report

PID = 'C09'
H = os.path.join(runner.VERIF, 'harness', 'h_c09.py')


def _native():
    import logging
    logging.disable(logging.CRITICAL)
    return runner.load_module(H, 'h_c09_native')


def replay(q, args, kwargs):
    h = _native()
    va, vb, vc, f1, v1, f2, v2, nops, req, warm = args[:10]
    vd = args[15] if len(args) > 15 else kwargs.get('vd', -1)
    t5 = args[16] if len(args) > 16 else kwargs.get('t5', 0)
    times = list(args[10:15]) + [t5]
    ops = [(f1, v1), (f2, v2)][:nops]
    init = (va, vb, vc, vd)
    ok, got, fresh = h.history_ok(init, ops, times, req, warm)
    if ok:
        return {'violated': False}
    if h.known_history(init, ops, req):
        return {'violated': True, 'what': '', 'known': [e['what'] for e in json.load(open(runner.KNOWN))['findings']
                                                        if e['property'] == PID and e.get('status') == 'known'][0]}
    # the same history on a real directory with real files and real mtimes (os.utime)
    real = real_fs_history(h, init, ops, times, req, warm)
    if real is not None and real[0]:
        return {'violated': False}
    what = ('initial variants %r (mtimes %r), then %s, request %r: long-lived project answers %r, a fresh project %r'
            % (init, times[:3], ', '.join('rewrite %s.py with variant %d at mtime %r' % (h.FILES[f], v, times[3 + k])
                                                  for k, (f, v) in enumerate(ops)), h.REQUESTS[req][:2], got, fresh))
    return {'violated': True, 'known': None, 'what': what,
            'replay': {'args': args}}


def real_fs_history(h, init, ops, times, req, warm):
    """replay on disk: same contents, mtimes set with os.utime (shifted to be non-negative)"""
    import shutil
    from supp.project import Project
    root = os.path.join(runner.WORK, PID, 'realfs')
    shutil.rmtree(root, ignore_errors=True)
    os.makedirs(root)
    base = 1000000000 - min(times)

    os.makedirs(os.path.join(root, 'pk'))
    open(os.path.join(root, 'pk', '__init__.py'), 'w').close()

    def put(f, v, t):
        p = os.path.join(root, f + '.py')
        with open(p, 'w') as fh:
            fh.write(h.VARIANTS[f][v])
        os.utime(p, (t + base, t + base))

    def ask(project, r):
        kind, src, pos = h.REQUESTS[r]
        fn = os.path.join(root, 'm.py')
        with project.check_changes():
            if kind == 'assist':
                return h.assist(project, src, pos, fn)
            if kind == 'location':
                return h.location(project, src, pos, fn)
            return [x[:4] for x in h.lint(project, src, fn)]
    for i, f in enumerate(h.FILES):
        if init[i] >= 0:
            put(f, init[i], times[i] if i < 3 else times[5])
    p = Project([root])
    ask(p, warm)
    for k, (fi, v) in enumerate(ops):
        put(h.FILES[fi], v, times[3 + k])
        if k + 1 < len(ops):
            ask(p, warm)
    got = ask(p, req)
    fresh = ask(Project([root]), req)
    shutil.rmtree(root, ignore_errors=True)
    return got == fresh, got, fresh


def run(tier, seed):
    rep = Report(PID, tier, seed, 'other')
    runner.workdir(PID)
    src = open(H).read()
    qs = []
    nops_list = (1, 2) if tier == 'thorough' else (1, 2)
    for nops in nops_list:
        for va in range(4):
            for vb in range(4):
                if nops == 2 and tier == 'quick' and (va, vb) not in ((0, 0), (0, 2), (1, 3), (2, 2), (3, 3), (0, 3)):
                    continue
                for req in range(9):
                    if nops == 2 and tier == 'quick' and req not in (0, 1, 2, 5, 7):
                        continue
                    if req >= 5 and (va, vb) != (0, 0):
                        continue        # these requests do not go through a.py / b.py
                    if nops == 2 and tier == 'thorough' and ((va, vb) not in ((0, 0), (0, 2), (1, 3), (2, 2), (3, 3), (0, 3)) or
                                                             (req >= 5 and (va, vb) != (0, 0))):
                        continue        # (a run with every two-rewrite history and every warm-up request did not finish in 90 minutes)
                    pre = 'nops == %d and va == %d and vb == %d and req == %d' % (nops, va, vb, req)
                    if nops == 1:
                        pre += ' and f2 == 0 and v2 == 0'
                        if tier == 'thorough':
                            # the quick selection of files, with the warm-up request being the first or the final one
                            # (larger selections did not finish within 30-90 minutes, see DESIGN.md)
                            pre += ' and (warm == 0 or warm == %d)' % req
                            if req in (5, 6, 8):
                                pre += ' and vc <= 0 and f1 >= 2'
                            else:
                                pre += ' and vd == -1 and f1 <= 2'
                    elif tier == 'thorough':
                        pre += ' and vc <= 0 and (warm == 0 or warm == %d)' % req
                    if tier == 'quick':
                        # the package module matters for the requests that reach it; the others keep it absent
                        if req in (5, 6, 8):
                            pre += ' and vc <= 0 and f1 >= 2' + (' and f2 >= 2' if nops == 2 else '')
                        else:
                            pre += ' and vd == -1 and f1 <= 2 and f2 <= 2'
                        pre += ' and warm == %d' % (req if nops == 1 else 0)
                        if nops == 2:
                            pre += ' and vc == 0'

                    new = 'hist_n%d_a%d_b%d_r%d' % (nops, va, vb, req)
                    qs.append(Query(new, src + '\n\n' + copy_fn(src, 'check', new, pre), new, 'main',
                                    400 if tier == 'quick' else 600, per_path=60, meta={}, label='S'))
    qs.append(Query('check__twin', src + '\n\n' + copy_fn(src, 'check', 'check__twin',
                                                        'nops == 1 and va == 0 and vb == 0 and vc == 0 and req == 0 and warm == 0 and f2 == 0 and v2 == 0',
                                                        twin=True), 'check__twin', 'twin', 120))
    runner.run_queries(PID, qs)
    rep.absorb(qs, replay)
    # listed finding: must still reproduce natively (and on a real directory) to print its line
    h = _native()
    for e in json.load(open(runner.KNOWN))['findings']:
        if e['property'] == PID and e.get('status') == 'known' and e.get('witness'):
            w = e['witness']
            ops = [tuple(o) for o in w['ops']]
            wi = tuple(w['init']) + (-1,) * (4 - len(w['init']))
            ok, got, fresh = h.history_ok(wi, ops, [1, 2, 3, 10, 11, 12], w['req'], w['warm'])
            real = real_fs_history(h, wi, ops, [1, 2, 3, 10, 11, 12], w['req'], w['warm'])
            if not ok and not real[0]:
                rep.known(e['what'])
            else:
                print('note: listed finding no longer reproduces: %s' % e['what'])
    rep.functions = ['Project.check_changes', 'Project.get_module/get_nmodule/package_dirs', 'Project._module_cache/_context_cache',
                     'SourceModule.changed/mtime/scope/_attrs', 'nast.extract_scope', 'SourceScope.resolve_star_imports',
                     'ImportedName.resolve', 'assistant.assist/location', 'linter.lint']
    rep.bounds = ['project of four modules a -> b -> c and pk.d (star import, attribute use, from-import, re-export: 4 x 4 x 3 x 3 content variants, c.py '
                  'and pk/d.py possibly absent at first); histories of 1..2 rewrites (any file, any variant), a warm-up request before and between them; '
                  '9 final requests (assist on attribute / import line / package listing, location, lint; through importers and directly); enumerated (E)',
                  'modification times are symbolic integers (S): only "an edit changes the mtime of the file" is assumed -- clocks may run backwards or repeat']
    rep.assumptions = ['in-memory file system (supp.project.os, supp.module.getmtime/open rebound); ast.parse and nast.extract run under NoTracing',
                       'deleting files, removing __init__.py and shadowing from an earlier root are outside the domain (as the property says)',
                       'candidates are replayed on a real directory with os.utime before they are reported']
    for q in qs[:3]:
        rep.samples.append({'query': q.name, 'status': q.result['status'], 'paths': q.result.get('paths')})
    return rep.finish('CrossHair over the real Project cache logic: after a history of edits with symbolic modification times, a request under '
                      'check_changes() on the long-lived project equals the same request on a new Project (pure differential).',
                      'one obligation per (history length, initial contents, request); paths = edit choices x distinct orderings of mtimes that matter')


def replay_file(obj):
    class Q:
        meta = {}
    return report_violation(PID, replay(Q, obj['args'], {}))
