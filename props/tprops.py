"""Shared driver for the T-mode properties (C01, C02, C03, C05): one CrossHair query per shape, identifiers
symbolic (equality patterns), real extractor through the symbolic-container transform."""
import os
import random
import time

from vlib import runner, family, tharness, refsem
from vlib.runner import Query, Report

TEMPLATE = '''\
from vlib import tharness as T
T.setup_symbolic()
H = T.TH(%(shape)r, %(prop)r)
PATHS = [0]


def check(%(sig)s) -> bool:
    """
    pre: %(pre)s
    post: _
    """
    PATHS[0] += 1
    return H.run([%(args)s])


def check_twin(%(sig)s) -> bool:
    """
    pre: %(pre)s
    post: _
    """
    H.run([%(args)s])
    return not H.reached
'''

# path budget: Bell(n) equality patterns (x builtin membership); shapes above the cap are checked with the
# slots that can never interact (see slice_pre) fixed apart
MAX_SLOTS_QUICK = 5
MAX_SLOTS_THOROUGH = 6
MAX_BI_QUICK = 4
MAX_BI_THOROUGH = 5


def harness_src(shape, prop, builtin=False):
    n = len(shape.groups)
    names = ['n%d' % i for i in range(n)]
    pre = ' and '.join('len(%s) == %d' % (x, tharness.IDLEN) for x in names)
    if not builtin:
        # no identifier is the builtin-table key (builtin membership is explored by the *_bi queries)
        pre += ' and ' + ' and '.join('%s != %r' % (x, tharness.BKEY) for x in names)
    else:
        pre += ' and (' + ' or '.join('%s == %r' % (x, tharness.BKEY) for x in names) + ')'
    return TEMPLATE % dict(shape=shape.name, prop=prop, sig=', '.join('%s: str' % x for x in names),
                           pre=pre, args=', '.join(names))


def select(prop, tier, seed):
    cap = MAX_SLOTS_THOROUGH if tier == 'thorough' else MAX_SLOTS_QUICK
    out = []
    for sh in tharness.all_shapes():
        if not tharness.in_domain(prop, sh):
            continue
        if len(sh.groups) > cap:
            continue
        out.append(sh)
    if tier == 'quick':
        named = [s for s in out if not s.name.startswith('enum_')]
        enum = [s for s in out if s.name.startswith('enum_')]
        rnd = random.Random(1000 + seed)
        rnd.shuffle(enum)
        out = named + enum[:40]
    return out


def pattern_of(args):
    """concrete counterexample strings -> (cls, builtins)"""
    reps, cls = [], []
    for a in args:
        for j, r in enumerate(reps):
            if a == r:
                cls.append(j)
                break
        else:
            cls.append(len(reps))
            reps.append(a)
    return cls, [j for j, r in enumerate(reps) if r == tharness.BKEY]


def make_replay(prop):
    def replay(q, args, kwargs):
        shape = tharness.shape_by_name(q.meta['shape'])
        c, b = pattern_of(args)
        cls = {s: c[shape.var_of[s]] for s in shape.slots}
        c = [cls[s] for s in shape.slots]
        res = tharness.native_case(shape, cls, b, prop)
        if res['oracle_disagreements']:
            raise RuntimeError('reference semantics disagrees with CPython on %r: %s'
                               % (res['text'], res['oracle_disagreements'][:2]))
        if not res['problems']:
            if res['known']:
                return {'violated': True, 'known': res['known'][0], 'what': ''}
            return {'violated': False}
        return {'violated': True, 'known': None,
                'what': '%s on\n%s  -> %s' % (prop, _indent(res['text']), '; '.join(res['problems'])),
                'replay': {'shape': shape.name, 'pattern': c, 'builtins': b, 'text': res['text']}}
    return replay


def _indent(t):
    return ''.join('      | ' + l + '\n' for l in t.splitlines())


def validate(rep, shapes, seed, budget_s):
    """every run: reference semantics vs real CPython on canonical namings of the selected shapes; template
    substitution vs real parser; transformed supp vs untransformed supp (natively, same inputs)"""
    from vlib import pyoracle
    import ast
    t0 = time.time()
    nexec = nnam = 0
    rnd = random.Random(seed)
    for sh in shapes:
        parts = family.var_partitions(sh, 200)
        rnd.shuffle(parts)
        for part in parts[:6]:
            for bi in ([], [0]):
                if not tharness.compiles(sh, part, bi):
                    continue
                naming = tharness.canon(sh, part, bi)
                n, bad = pyoracle.validate_refsem(sh, naming, part, bi)
                nexec += n
                nnam += 1
                for b in bad[:2]:
                    rep.harness_error('refsem vs CPython on %s %r: %s' % (sh.name, naming, b))
                # template substitution == real parse (modulo positions, which depend on identifier length)
                tpl = family.Template(sh)
                t1 = ast.dump(tpl.substitute(naming))
                t2 = ast.dump(ast.parse(family.render(sh, naming)))
                if t1 != t2:
                    rep.harness_error('template substitution differs from the real parser on %s' % sh.name)
        if time.time() - t0 > budget_s:
            break
    rep.validation['refsem_vs_cpython_executions'] = nexec
    rep.validation['namings_validated'] = nnam


def known_lines(rep, pid):
    """each listed finding must still reproduce natively on its recorded input to print its line"""
    for e in tharness.known_entries(pid):
        w = e.get('witness')
        if not w:
            continue
        shape = tharness.shape_by_name(w['shape'])
        cls = dict(zip(shape.slots, w['pattern']))
        res = tharness.native_case(shape, cls, w.get('builtins', []), pid)
        if res['known']:
            rep.known(e['what'])
        else:
            print('note: listed finding no longer reproduces: %s' % e['what'])


def slow_factor(sh):
    """nested loops multiply the work per path (every back edge is resolved for every read)"""
    return 5 if sh.name.startswith('nested_loops') else 1


def run(pid, tier, seed, explanation, functions, bounds, assumptions, level='other', custom=None, extra=None):
    rep = Report(pid, tier, seed, level)
    runner.workdir(pid)
    if custom:
        return custom(rep)
    shapes = select(pid, tier, seed)
    validate(rep, shapes, seed, 40 if tier == 'quick' else 240)
    qs = []
    bicap = MAX_BI_THOROUGH if tier == 'thorough' else MAX_BI_QUICK
    for sh in shapes:
        n = len(sh.groups)
        timeout = (40 if n <= 4 else 90 if n == 5 else 300) * (1 if tier == 'quick' else 2) * slow_factor(sh)
        qs.append(Query(sh.name, harness_src(sh, pid), 'check', 'main', timeout, per_path=30,
                        meta={'shape': sh.name}, label='S'))
        if n <= bicap:
            qs.append(Query(sh.name + '__bi', harness_src(sh, pid, builtin=True), 'check', 'main', timeout,
                            per_path=30, meta={'shape': sh.name}, label='S'))
    # reachability twins on a sample
    for sh in shapes[:3]:
        qs.append(Query(sh.name + '__twin', harness_src(sh, pid), 'check_twin', 'twin', 60, meta={'shape': sh.name}))
    extra_replay = None
    if extra:
        eq, extra_replay = extra(rep, tier)
        qs += eq
    runner.run_queries(pid, qs)
    rep.absorb([q for q in qs if not q.meta.get('extra')], make_replay(pid))
    if extra_replay:
        rep.absorb([q for q in qs if q.meta.get('extra')], extra_replay)
    known_lines(rep, pid)
    rep.functions = functions
    rep.bounds = bounds + ['%d shapes (%d named, rest enumerated/seeded); <= %d identifier slots per shape'
                           % (len(shapes), sum(1 for s in shapes if not s.name.startswith('enum_')),
                              MAX_SLOTS_THOROUGH if tier == 'thorough' else MAX_SLOTS_QUICK),
                           'identifiers: all strings of length %d over the full character alphabet (symbolic); '
                           'one path per equality pattern x membership in the 1-entry builtin table' % tharness.IDLEN]
    rep.assumptions = assumptions + [
        'program shapes are enumerated, not symbolic: the parser is a C function (template substitution: the real ast.parse output of the canonical text with identifier fields overwritten, validated against the real parser every run)',
        "supp's dict/set displays, comprehensions and set()/dict() calls are rewritten (from the current source, every run) to equality-only ordered containers (vlib/symcont.py) so that identifiers stay symbolic; UndefinedName (a str subclass) is replaced by a non-str marker class; find_id_loc (text search, C11's subject) returns the statement start; the builtin table is cut to one entry",
        'reference: vlib/refsem.py, exhaustive over decision vectors (loops <= 2 trips), validated against real CPython executions on every run and on every candidate',
        'every candidate is replayed on the real text through the real parser and the untransformed supp',
    ]
    for q in qs[:8]:
        rep.samples.append({'shape': q.name, 'text': family.canonical(tharness.shape_by_name(q.meta['shape'])),
                            'status': q.result['status'], 'paths': q.result.get('paths')})
    return rep.finish(explanation,
                      'one obligation per shape; a path is one equality pattern of the symbolic identifiers '
                      '(Bell(n) patterns for n slots) and stands for every assignment of strings with that pattern')


def replay_file(pid, obj):
    shape = tharness.shape_by_name(obj['shape'])
    cls = dict(zip(shape.slots, obj['pattern']))
    res = tharness.native_case(shape, cls, obj.get('builtins', []), pid)
    print(res['text'])
    if res['problems']:
        print('VIOLATION property=%s replay=given' % pid)
        print('  ' + '; '.join(res['problems']))
        return 1
    print('not reproduced')
    return 0
