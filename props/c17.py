"""C17 deterministic output: set-iteration order as solver-chosen permutation (E)."""
import os
import re
import shutil
import subprocess
import sys

from vlib import runner
from vlib.runner import Query, Report

PID = 'C17'
HARNESS = os.path.join(runner.VERIF, 'harness', 'h_c17.py')


def _copy(src, fn, new, pre=None, twin=False):
    m = re.search(r'^def %s\(.*?(?=^def |\Z)' % fn, src, re.S | re.M)
    body = m.group(0).replace('def %s(' % fn, 'def %s(' % new, 1)
    if pre:
        body = body.replace('    post: _', '    pre: %s\n    post: _' % pre, 1)
    if twin:
        body = body.replace('TWIN[0]', 'True')
    return body


def replay(q, args, kwargs):
    h = runner.load_module(HARNESS, 'h_c17_native')
    case, choices = args[0], list(args[1:])
    base, got = h.run_case(case, choices)
    if base == got and h.source_order_ok(case, got):
        return {'violated': False}
    # confirm the dependence in fresh processes with different hash seeds / prior allocation
    what = 'case %d: with set iteration order %r the result is %s; with insertion order %s' % (case, choices, got, base)
    return {'violated': True, 'known': None, 'what': what, 'replay': {'case': case, 'choices': choices}}


def run(tier, seed):
    rep = Report(PID, tier, seed, 'other')
    runner.workdir(PID)
    src = open(HARNESS).read()
    proj = os.path.join(runner.WORK, PID, 'proj')
    os.makedirs(proj, exist_ok=True)
    os.environ['VERIF_C17_ROOT'] = proj
    runner.load_module(HARNESS, 'h_c17_setup').materialise(proj)
    qs = []
    ncase = 13
    for c in range(ncase):
        slices = ['case == %d' % c + (' and o3 == 0' if tier == 'quick' else '')]
        for i, pre in enumerate(slices):
            new = 'check_c%d_%d' % (c, i)
            qs.append(Query(new, src + '\n\n' + _copy(src, 'check', new, pre), new, 'main',
                            240 if tier == 'quick' else 1500, per_path=30, meta={'case': c}, label='E'))
    qs.append(Query('check__twin', src + '\n\n' + _copy(src, 'check', 'check__twin', 'case == 0', twin=True),
                    'check__twin', 'twin', 60))
    runner.run_queries(PID, qs)
    rep.absorb(qs, replay)
    rep.functions = ['supp.scope.Flow.parent_names (row construction through a set)', 'supp.name.MultiName.__init__',
                     'first_name', 'SourceScope.exported_names', 'EvalCtx.declarations', 'assistant.location',
                     'ImportedName.resolve']
    rep.bounds = ['8 programs with 3..5 alternative definitions of one name (if/elif/else, try/except/else, loops, nested groups that share their '
                  'first definition, from-import and attribute access across a project module) and 2 completion requests whose proposals differ '
                  'only by letter case, 1 completion through a qualified import held by a cached project module, 2 completions on a module that exists in several configured roots',
                  'every request is issued repeatedly on one Project object (2-3 times) and once more on a new one: all answers are equal',
                  'every permutation of the first three (thorough: four) sets of 2..3 elements iterated on the path (6^3 / 6^4 orders; later sets cycle through the same choices); sets of 4 '
                  'elements: 6 of 24 orders']
    rep.assumptions = ['the name `set` in supp.name/supp.scope/supp.evaluator/supp.assistant/supp.project/supp.linter is rebound to a set subclass with '
                       'solver-chosen iteration order; dict order and os.listdir order are not varied',
                       'fresh-process / hash-seed runs are outside the technique']
    for q in qs[:4]:
        rep.samples.append({'query': q.name, 'status': q.result['status'], 'paths': q.result.get('paths')})
    return rep.finish('CrossHair explores every iteration order (solver variables) of the sets built while resolving a '
                      'multiply-bound name; location() and exported names must equal the insertion-order run and list '
                      'alternatives in source order. Solver-enumerated (E): each path is one concrete order.',
                      'one obligation per program; paths = permutations')


def replay_file(obj):
    class Q:
        meta = {}
    v = replay(Q, [obj['case']] + obj['choices'], {})
    if v['violated']:
        print('VIOLATION property=%s replay=given' % PID)
        print('  ' + v['what'])
        return 1
    print('not reproduced')
    return 0
