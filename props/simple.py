"""helpers shared by the single-harness-file properties"""
import re


def copy_fn(src, fn, new, pre=None, twin=False):
    m = re.search(r'^def %s\(.*?(?=^def |\Z)' % fn, src, re.S | re.M)
    body = m.group(0).replace('def %s(' % fn, 'def %s(' % new, 1)
    if pre:
        body = body.replace('    post: _', '    pre: %s\n    post: _' % pre, 1)
    if twin:
        body = body.replace('TWIN[0]', 'True')
    return body


def report_violation(pid, v):
    if v.get('violated'):
        print('VIOLATION property=%s replay=given' % pid)
        print('  ' + v['what'])
        return 1
    print('not reproduced')
    return 0
