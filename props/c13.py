"""C13: the analysis depends on structure, not on layout.  Node positions are affine functions of symbolic
layout parameters; the real extractor / names_at must give every read the same alternatives as under the
canonical layout."""
import os
import random

from props import tprops
from vlib import runner, family, tharness, layout, lharness
from vlib.runner import Query, Report

PID = 'C13'
NB, NG = lharness.NB, lharness.NG

TEMPLATE = '''\
from vlib import lharness as L
L.setup()
H = L.LH(%(shape)r, %(cap)d)
PATHS = [0]


def check(case: int, %(sig)s) -> bool:
    """
    pre: 0 <= case < %(ncases)d
    pre: %(pre)s
    post: _
    """
    PATHS[0] += 1
    c = 0
    for j in range(%(ncases)d):
        if case == j:
            c = j
    return H.run(c, [%(args)s])


def check_twin(case: int, %(sig)s) -> bool:
    """
    pre: 0 <= case < %(ncases)d
    pre: %(pre)s
    post: _
    """
    c = 0
    for j in range(%(ncases)d):
        if case == j:
            c = j
    H.run(c, [%(args)s])
    return not H.reached
'''
ARGS = ['b%d' % i for i in range(NB)] + ['w', 'c'] + ['g%d' % i for i in range(NG)]


def src(shape, cap, ncases):
    pre = ' and '.join('0 <= b%d <= 2' % i for i in range(NB)) + ' and 1 <= w <= 8 and 0 <= c <= 8 and ' + \
        ' and '.join('0 <= g%d <= 2' % i for i in range(NG))
    return TEMPLATE % dict(shape=shape.name, cap=cap, ncases=ncases, sig=', '.join('%s: int' % a for a in ARGS),
                           pre=pre, args=', '.join(ARGS))


def select(tier, seed):
    shapes = [s for s in tharness.all_shapes() if len(s.slots) <= 9]
    named = [s for s in shapes if not s.name.startswith('enum_')]
    enum = [s for s in shapes if s.name.startswith('enum_')]
    rnd = random.Random(seed + 13)
    rnd.shuffle(enum)
    return named + enum[:20 if tier == 'quick' else 120]


HX = os.path.join(runner.VERIF, 'harness', 'h_c13x.py')


def xsetup():
    root = os.path.join(runner.WORK, PID, 'proj')
    os.environ['VERIF_C13_ROOT'] = root
    h = runner.load_module(HX, 'h_c13x_native')
    h.materialise(root)
    return h


def replay_x(args):
    import logging
    logging.disable(logging.CRITICAL)
    h = xsetup()
    bad = h.problems(*args)
    if not bad:
        return {'violated': False}
    text, cur = h.build(*args)
    return {'violated': True, 'known': None,
            'what': 'C13 (definitions in another module): %s\n--- c13lib.py\n%s--- edited file, cursor %r\n%s'
                    % ('; '.join(bad), h.LIB['c13lib.py'], cur, text), 'replay': {'x_args': list(args)}}


def replay(q, args, kwargs):
    if q.meta.get('h') == 'x':
        return replay_x(args)
    shape = tharness.shape_by_name(q.meta['shape'])
    H = lharness.LH(shape.name, q.meta['cap'])
    case, nums = args[0], list(args[1:])
    naming, text, relaid, on, numsd, aff = H.describe(case, nums)
    good, _ = layout.check_affine(text.splitlines(), on, aff, numsd)
    if not good:
        raise RuntimeError('layout model disagrees with the real parser on %r' % relaid)
    res, problems = lharness.native_compare(shape, naming, text, relaid)
    if not problems:
        return {'violated': False}
    return {'violated': True, 'known': None,
            'what': 'C13: canonical layout\n%s  relaid\n%s  -> %s' % (tprops._indent(text), tprops._indent(relaid),
                                                                 '; '.join(problems)),
            'replay': {'shape': shape.name, 'canonical': text, 'relaid': relaid, 'naming': {str(k): v for k, v in naming.items()}}}


def run(tier, seed):
    rep = Report(PID, tier, seed, 'other')
    runner.workdir(PID)
    lharness.setup()
    cap = 12 if tier == 'quick' else 48
    shapes = select(tier, seed)
    qs = []
    total_cases = 0
    rnd = random.Random(seed)
    nval = 0
    for sh in shapes:
        H = lharness.LH(sh.name, cap)
        n = H.ncases()
        if not n:
            continue
        total_cases += n
        qs.append(Query(sh.name, src(sh, cap, n), 'check', 'main', 150 if tier == 'quick' else 600, per_path=30,
                        meta={'shape': sh.name, 'cap': cap}, label='S'))
        # printer/model validation and public-API cross-check on random concrete layouts (native)
        for case in rnd.sample(range(n), min(n, 2)):
            nums = [rnd.randint(0, 2) for _ in range(NB)] + [rnd.randint(1, 8), rnd.randint(0, 8)] + \
                   [rnd.randint(0, 2) for _ in range(NG)]
            naming, text, relaid, on, numsd, aff = H.describe(case, nums)
            good, _ = layout.check_affine(text.splitlines(), on, aff, numsd)
            nval += 1
            if not good:
                rep.harness_error('layout model vs real parser: %s %r' % (sh.name, relaid))
                continue
            res, problems = lharness.native_compare(sh, naming, text, relaid)
            for p in problems[:1]:
                rep.violation('C13 (public API): canonical\n%s  relaid\n%s  -> %s'
                              % (tprops._indent(text), tprops._indent(relaid), p),
                              {'shape': sh.name, 'canonical': text, 'relaid': relaid,
                               'naming': {str(k): v for k, v in naming.items()}})
    for sh in shapes[:3]:
        H = lharness.LH(sh.name, cap)
        if H.ncases():
            qs.append(Query(sh.name + '__twin', src(sh, cap, H.ncases()), 'check_twin', 'twin', 60,
                            meta={'shape': sh.name, 'cap': cap}))
    xsetup()
    xs = open(HX).read()
    from props.simple import copy_fn
    for form in range(4):
        new = 'crossfile_form%d' % form
        qs.append(Query(new, xs + '\n\n' + copy_fn(xs, 'check', new, 'form == %d' % form), new, 'main', 300, per_path=60,
                        meta={'h': 'x'}, label='E'))
    qs.append(Query('crossfile__twin', xs + '\n\n' + copy_fn(xs, 'check', 'check__twin', 'name == 0 and form == 0 and k == 0 and pad == 0 and brk == 0', twin=True),
                    'check__twin', 'twin', 60, meta={'h': 'x'}))
    runner.run_queries(PID, qs)
    rep.absorb(qs, replay)
    rep.validation['layout_model_vs_real_parser_points'] = nval
    rep.functions = ['supp.nast.extract', 'util.insert_loc', 'util.Location.__lt__', 'Flow.names_at (bisect)',
                     'util.get_expr_end', 'scope.get_first_body_node_loc', 'FuncScope/ClassScope location', 'util.np',
                     'linter.lint (native cross-check on sampled layouts)']
    rep.bounds = ['%d shapes x up to 3 namings x up to %d layout structures (which statements are joined with ";", '
                  'which bodies are one-liners, which brackets are broken): %d cases, enumerated (E)' % (len(shapes), cap, total_cases),
                  'symbolic (S): blank/comment lines before each of the first %d physical lines (0..2), indentation width 1..8, '
                  'continuation indent 0..8, extra spaces after separators 0..2 -- every node position is an affine '
                  'expression of these' % NB,
                  'companion (E): go-to-definition on a read of 7 names defined in another project module (positions on lines 1-9, columns 0-10) through 4 import forms, '
                  'with 0..9 blank/comment lines before the read, 0-2 statements joined in front of it and the read on a continuation line or not (1680 layouts): the answer is the binding in the other file in every layout',
                  'def/class/import header layout is C11; comments inside expressions outside']
    rep.assumptions = ['node positions follow the affine layout model of vlib/layout.py, derived from and validated against '
                       'the real parser on every run (and on every candidate)',
                       'find_id_loc stubbed to the statement start (text search is C11)',
                       'identifiers concrete (canonical namings)']
    for q in qs[:5]:
        rep.samples.append({'shape': q.name, 'status': q.result['status'], 'paths': q.result.get('paths')})
    return rep.finish('CrossHair over the real extractor with every AST node position a symbolic affine expression of the '
                      'layout parameters: for all parameter values each read resolves to the same alternatives as in the '
                      'canonical layout (insert_loc / bisect / Location.__lt__ / get_expr_end see symbolic positions).',
                      'one obligation per shape; a path is one relative order of positions, standing for all layouts with that order')


def replay_file(obj):
    if 'x_args' in obj:
        from props.simple import report_violation
        return report_violation(PID, replay_x(obj['x_args']))
    shape = tharness.shape_by_name(obj['shape'])
    naming = {int(k): v for k, v in obj['naming'].items()}
    res, problems = lharness.native_compare(shape, naming, obj['canonical'], obj['relaid'])
    if problems:
        print('VIOLATION property=%s replay=given' % PID)
        print('  ' + '; '.join(problems))
        return 1
    print('not reproduced')
    return 0
