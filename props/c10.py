"""C10 unused-name diagnostics vs the exemption rule (solver-enumerated construction)."""
import os

from props.simple import copy_fn, report_violation
from vlib import runner
from vlib.runner import Query, Report

PID = 'C10'
H = os.path.join(runner.VERIF, 'harness', 'h_c10.py')
HS = os.path.join(runner.VERIF, 'harness', 'h_c10s.py')


def replay_s(q, args, kwargs):
    """symbolic-identifier companion: re-run the case on the real text through the untransformed lint()"""
    import importlib
    from supp.linter import lint
    from supp.project import Project
    case, name = args
    hs_text = open(HS).read()
    ns = {}
    exec(compile(hs_text[hs_text.index('CASES = ['):hs_text.index('TREES = ')], 'cases', 'exec'), ns)
    text, code = ns['CASES'][case]
    ident = name if name.isidentifier() else ('_zz' if name.startswith('_') else 'zz')
    real = text.replace('vQ', ident)
    import ast
    pos = sorted((n.lineno, n.col_offset) for n in ast.walk(ast.parse(real))
                 if (isinstance(n, ast.Name) and n.id == ident and isinstance(n.ctx, ast.Store)) or
                 (isinstance(n, ast.arg) and n.arg == ident))
    got = sorted(r[:4] for r in lint(Project(['/nonexistent-root']), real, 'f.py') if r[0] in ('W01', 'W02'))
    want = sorted(('W01', 'Unused name: ' + ident, l, c) for l, c in pos) if code and not ident.startswith('_') else []
    if got == want:
        return {'violated': False}
    return {'violated': True, 'known': None, 'what': 'lint reports %r, the rule gives %r for\n%s' % (got, want, real),
            'replay': {'s_args': args}}


def replay(q, args, kwargs):
    if q.meta.get('h') == 's':
        return replay_s(q, args, kwargs)
    h = runner.load_module(H, 'h_c10_native')
    scope, kind, name, read, dotted = args[:5]
    loc = args[5] if len(args) > 5 else kwargs.get('loc', 0)
    bad = h.problems(scope, kind, name, bool(read), bool(dotted), loc)
    if not bad:
        return {'violated': False}
    return {'violated': True, 'known': None,
            'what': '%s binding in %s scope (name shape %d, %s, locals() companion %d): %s'
                    % (h.KINDS[kind][0], h.SCOPES[scope], name, 'read' if read else 'never read', loc, bad[0]),
            'replay': {'args': args}}


def run(tier, seed):
    rep = Report(PID, tier, seed, 'other')
    runner.workdir(PID)
    h = runner.load_module(H, 'h_c10_setup')
    src = open(H).read()
    qs = []
    for sc in range(6):
        new = 'check_scope%d' % sc
        qs.append(Query(new, src + '\n\n' + copy_fn(src, 'check', new, 'scope == %d' % sc), new, 'main', 200, per_path=30,
                        meta={}, label='E'))
    qs.append(Query('check__twin', src + '\n\n' + copy_fn(src, 'check', 'check__twin', 'scope == 2 and kind == 0 and name == 0', twin=True),
                    'check__twin', 'twin', 60))
    ss = open(HS).read()
    qs.append(Query('symbolic_name', ss, 'check', 'main', 300, per_path=60, meta={'h': 's'}, label='S'))
    qs.append(Query('symbolic_name__twin', ss + '\n\n' + copy_fn(ss, 'check', 'check__twin', 'case == 0', twin=True), 'check__twin',
                    'twin', 60, meta={'h': 's'}))
    runner.run_queries(PID, qs)
    rep.absorb(qs, replay)
    ncomb = sum(1 for s in range(6) for k in range(len(h.KINDS)) for n in range(3) for r in (False, True) for lz in range(3)
                if h.build(s, k, n, r, False, lz) is not None)
    rep.functions = ['supp.linter.lint (use_name, the locals() branch, the exemption chain)', 'SourceScope.all_names',
                     'nast.extract', 'Flow.names_at']
    rep.bounds = ['%d constructed modules: 27 binding kinds (assignment forms, bindings on two branches / one of two paths, try/except imports, walrus, for/with/except targets, comprehension variable, '
                  'def, class, import forms incl. dotted / __future__ / star, three parameter kinds) x 6 scope kinds (module, class, function, '
                  'method, lambda, nested function) x name shape (plain, underscore) x read / never read x locals() companion (none, an unrelated function calling locals(), a nested function of the binding scope calling locals())' % ncomb]
    rep.bounds.append('(S) companion: 10 modules in which the identifier of the binding is ANY string of length 2 (symbolic), through the whole of lint()')
    rep.assumptions = ['solver-enumerated (E): every path is one concrete module through the real lint(); the (S) companion uses the template tree + symbolic-container transform of C01-C03',
                       'reference: the rule in the property text evaluated on the construction (kind, scope, name shape, read flag)',
                       'a locals() call in the scope of the binding itself (which by the stated mechanism marks every local used), global/nonlocal redirections and the real-file corpus are outside']
    rep.samples.append({'module': h.build(3, 6, 0, False, False)[0], 'expected': h.build(3, 6, 0, False, False)[1]})
    rep.samples.append({'module': h.build(0, 13, 0, False, False)[0], 'expected': h.build(0, 13, 0, False, False)[1]})
    return rep.finish('CrossHair enumerates (scope kind, binding kind, name shape, read flag) as solver variables; on each path the real lint() '
                      'runs on the constructed module and its W01/W02 entries (code, message, line, column) must equal what the rule of the '
                      'property gives, and nothing else may be reported as unused.',
                      'one obligation per scope kind; path = one constructed module')


def replay_file(obj):
    class Q:
        meta = {'h': 's'} if 's_args' in obj else {}
    return report_violation(PID, replay(Q, obj.get('s_args') or obj['args'], {}))
