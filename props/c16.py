"""C16: exactly one server under every interleaving (z3 BMC of the transition system regenerated from
supp/remote.py) + server-side exit conditions (CrossHair over the real Server.run)."""
import itertools
import json
import os
import random
import time
from concurrent.futures import ProcessPoolExecutor

from vlib import runner
from vlib.runner import Query, Report
from vlib import bmc_remote as B

PID = 'C16'
REMOTE = os.path.join(os.environ.get('VERIF_REPO', '/repo'), 'supp', 'remote.py')
BMC_TIMEOUT_MS = 40000
SERVER_HARNESS = os.path.join(runner.VERIF, 'harness', 'h_c16_server.py')
LAUNCH_HARNESS = os.path.join(runner.VERIF, 'harness', 'h_c16_launch.py')


def scenarios(tier):
    ops = ['prepare', 'call']
    out = []
    # one and two concurrent client threads, every assignment of prepare / first call
    for k in (1, 2):
        for combo in itertools.product(ops, repeat=k):
            out.append([[r] for r in combo])
    # three threads
    three = [('prepare', 'call', 'call'), ('prepare', 'prepare', 'call'), ('call', 'call', 'call'),
             ('prepare', 'prepare', 'prepare')]
    if tier == 'thorough':
        three = list(itertools.product(ops, repeat=3))
    for combo in three:
        out.append([[r] for r in combo])
    # sequences on one thread (close ends the session; the client can be used again)
    out += [[['close']], [['call', 'close']], [['call', 'close', 'call']], [['prepare', 'call', 'close', 'call']],
            [['prepare', 'close']], [['call', 'call']], [['prepare', 'prepare', 'call']]]
    # a thread that prepares then calls, racing another caller; close racing prepare (no caller involved)
    out += [[['prepare', 'call'], ['call']], [['prepare', 'call'], ['prepare']], [['close'], ['prepare']]]
    if tier == 'thorough':
        out += [[['prepare', 'call'], ['prepare', 'call']], [['prepare', 'call'], ['call'], ['call']],
                [['call', 'close', 'call'], ['prepare']], [['prepare', 'call', 'close', 'prepare', 'call']]]
    seen, uniq = set(), []
    for s in out:
        key = json.dumps(sorted(s))
        if key not in seen:
            seen.add(key)
            uniq.append(s)
    return uniq


def _work(clients):
    comp = B.Compiler(REMOTE)
    scn = B.Scenario(comp, clients)
    t0 = time.time()
    nstates, ntrans, finals = B.explore(scn)
    explicit_bad = sorted({b for f in finals for b in B.judge(scn, f)})
    verdict, sched, stats = B.bmc(scn, timeout_ms=BMC_TIMEOUT_MS)
    ind = B.inductive(scn, B.reachable(scn)) if verdict != 'sat' else None
    stats['inductive'] = ind
    stats.update(states=nstates, transitions=ntrans, explicit_bad=explicit_bad, wall_s=round(time.time() - t0, 2),
                 cuts=scn.cuts, opaque=comp.opaque, ir={('%d:%s' % (t, scn.kind[t])): [repr(i) for i in scn.progs[t] if i.op != 'jump']
                                                       for t in range(scn.n)})
    return clients, verdict, sched, stats


def real_problems(scn, real):
    """property verdict on the outcome of a real threaded run"""
    bad = []
    for t, e in real['exc'].items():
        bad.append('thread %s ends with %s' % (t, e))
    if real['stuck']:
        bad.append('threads %r did not finish (deadlock)' % real['stuck'])
    has_close = any('close' in seq for seq in scn.clients)
    has_start = any(r in ('prepare', 'call') for seq in scn.clients for r in seq)
    if not bad and not has_close and has_start:
        if real['launches'] != 1:
            bad.append('%d server processes launched' % real['launches'])
        if not real['conn']:
            bad.append('no connection after start-up')
    exp = B.expected_sequential(scn) if has_close else None
    if exp is not None and not bad:
        if real['launches'] != exp['launches']:
            bad.append('%d server processes launched, expected %d' % (real['launches'], exp['launches']))
        if real['conn'] != exp['conn']:
            bad.append('connection %s at the end' % ('present' if real['conn'] else 'absent'))
    if not bad:
        for t, seq in enumerate(scn.clients):
            if real['answered'].get(t, 0) != seq.count('call'):
                bad.append('thread %d: %d of %d calls answered' % (t, real['answered'].get(t, 0), seq.count('call')))
    return bad


def same_outcome(real):
    m = real['model']
    return (real['launches'] == m['launches'] and real['conn'] == m['conn'] and real['closed'] == m['closed'] and
            {int(k): v for k, v in real['exc'].items() if k is not None} == {int(k): v for k, v in m['exc'].items()})


def run(tier, seed):
    rep = Report(PID, tier, seed, 'model_checking')
    runner.workdir(PID)
    rnd = random.Random(seed)
    known = runner.load_known(PID)
    scns = scenarios(tier)
    try:
        B.Compiler(REMOTE).run_summary()
    except B.Unsupported as e:
        rep.harness_error('remote.py cannot be translated: %s' % e)
        return rep.finish('translation failed', 'n/a')
    results = []
    with ProcessPoolExecutor(max_workers=runner.JOBS) as ex:
        futs = [ex.submit(_work, s) for s in scns]
        for f in futs:
            try:
                results.append(f.result())
            except Exception as e:
                rep.harness_error('scenario failed: %s: %s' % (type(e).__name__, e))
    states = trans = 0
    validated = 0
    unsat = sat = unknown = proved = 0
    solver_s = 0.0
    queries = []
    for clients, verdict, sched, stats in results:
        scn = B.Scenario(B.Compiler(REMOTE), clients)
        states += stats['states']
        trans += stats['transitions']
        solver_s += stats['solver_s']
        name = scn.name()
        queries.append({'scenario': name, 'verdict': verdict, 'bound': stats['bound'], 'threads': stats['threads'],
                        'solver_s': stats['solver_s'], 'states': stats['states']})
        # cross-check the two engines on the same IR
        if verdict == 'unsat' and stats['explicit_bad']:
            rep.harness_error('%s: BMC unsat but explicit enumeration finds %r' % (name, stats['explicit_bad']))
        if verdict == 'sat' and not stats['explicit_bad']:
            rep.harness_error('%s: BMC sat but explicit enumeration finds nothing' % name)
        ind = stats.get('inductive')
        queries[-1]['inductive'] = ind
        if ind is not None:
            solver_s += ind['solver_s']
            if ind['proved']:
                proved += 1
                if stats['explicit_bad']:
                    rep.harness_error('%s: induction proved but explicit enumeration finds %r' % (name, stats['explicit_bad']))
        if verdict == 'unsat':
            unsat += 1
            if ind is not None and not ind['proved']:
                rep.harness_error('%s: BMC unsat but the inductive check fails %r' % (name, ind))
        elif verdict == 'unknown' and ind is not None and ind['proved']:
            unknown += 1      # bounded search timed out; discharged by the inductive proof instead
        elif verdict == 'sat':
            sat += 1
            s_fin, events, complete = B.simulate(scn, sched)
            probs = B.judge(scn, s_fin)
            real = B.replay_real(scn, sched, REMOTE)
            rbad = real_problems(scn, real)
            if not rbad:
                real = B.replay_real(scn, sched, REMOTE)       # time-out based scheduler: one retry
                rbad = real_problems(scn, real)
            validated += 1
            if not rbad:
                rep.harness_error('%s: model schedule %r (%r) did not reproduce on real threads: %r'
                                  % (name, sched, probs, real))
                continue
            what = '%s: %s (schedule of %d line steps: %s)' % (
                name, '; '.join(rbad), len(events), ' '.join('T%d:%d' % (t, l) for t, l, _ in events))
            k = _match_known(known, name, rbad)
            if k:
                rep.known(k)
            else:
                rep.violation(what, {'scenario': clients, 'schedule': sched, 'real': real, 'model_problems': probs})
        else:
            unknown += 1
            rep.inconclusive.append('%s: solver %s' % (name, verdict))
        if len(rep.samples) < 6:
            rep.samples.append({'scenario': name, 'verdict': verdict, 'bound': stats['bound'],
                                'solver_s': stats['solver_s'], 'ir': stats['ir'] if len(rep.samples) == 0 else '...'})
    # translation validation: sequential and random schedules replayed on real threads, outcomes compared
    nrand = 40 if tier == 'thorough' else 14
    mism = 0
    pool = [s for s in scns if len(s) >= 2] or scns
    for i in range(nrand):
        clients = pool[i % len(pool)] if i < len(pool) else rnd.choice(pool)
        scn = B.Scenario(B.Compiler(REMOTE), clients)
        if i < 3:
            sched = []      # sequential: thread 0 to completion, then 1, ...
            s = B.initial(scn)
            while True:
                en = [t for t in range(scn.n) if B.enabled(scn, s, t)]
                if not en:
                    break
                sched.append(en[0])
                s = B.step(scn, s, en[0])
        else:
            sched = B.random_schedule(scn, rnd)
        real = B.replay_real(scn, sched, REMOTE)
        if not same_outcome(real):
            # the line scheduler works with time-outs: on a loaded machine a grant can be late; retry once
            real = B.replay_real(scn, sched, REMOTE)
        validated += 1
        if not same_outcome(real):
            mism += 1
            rep.harness_error('translation validation: %s schedule %r: real %r' % (scn.name(), sched, real))
    rep.validation['schedules_replayed_on_real_threads'] = validated
    rep.validation['outcome_mismatches'] = mism
    # server side
    src = open(SERVER_HARNESS).read()
    tw = src + '\n\n' + _twin(src)
    qs = [Query('server_exits', src, 'server_exits', 'main', 120 if tier == 'quick' else 300, label='E'),
          Query('server_exits__twin', tw, 'server_exits__twin', 'twin', 60)]
    ls = open(LAUNCH_HARNESS).read()
    from props.simple import copy_fn
    lq = []
    slices = ['n == 1', 'n == 2'] + ['n == 3 and k0 == %d' % k for k in range(4)] + ['n == 4 and k0 == %d and k1 == %d' % (a, b) for a in range(4) for b in range(4)]
    if tier != 'quick':
        slices += ['n == 5 and k0 == %d and k1 == %d' % (a, b) for a in range(4) for b in range(4)]
    for i, pre in enumerate(slices):
        new = 'launch_%02d' % i
        lq.append(Query(new, ls + '\n\n' + copy_fn(ls, 'launch', new, pre), new, 'main', 600 if tier == 'quick' else 1500,
                        per_path=60, meta={'fn': 'launch'}, label='S'))
    lq.append(Query('launch__twin', ls + '\n\n' + copy_fn(ls, 'launch', 'launch__twin', 'n == 2', twin=True), 'launch__twin', 'twin', 60,
                    meta={'fn': 'launch'}))
    runner.run_queries(PID, qs + lq)
    rep.absorb(qs, _replay_server)
    rep.absorb(lq, _replay_launch)
    qs = qs + lq
    rep.functions = ['supp.remote.Environment._run (launch handshake: retry loop and deadline, real code with stubbed Popen/Client/clock)', 'supp.remote.Environment.prepare', 'run', '_threaded_run', '_call', 'close',
                     '_run (summarised: Popen assignment, Client assignment)', 'supp.server.Server.run', 'Server.process']
    rep.bounds = ['%d scenarios of <= 3 client threads (+ starter threads), each thread a sequence of prepare / first call / close' % len(scns),
                  'schedule symbolic, BMC bound = total instruction count of the scenario (no loops: complete for the scenario)',
                  'line granularity; with-exit and join-wait are extra schedulable steps',
                  'close() concurrent with a call on another thread is outside (needs external synchronisation by design)',
                  'server side: scripts of <= 3 messages from {request, close, EOF, undecodable}',
                  'launch handshake: scripts of <= %d connection attempts, symbolic clock (whole seconds)' % (4 if tier == 'quick' else 5)]
    rep.assumptions = [
        'interleavings: Popen and Client succeed at the first attempt and _run is summarised by its two shared-state effects; the retry loop of _run is '
        'checked separately and sequentially (launch handshake: <= 5 connection attempts failing with FileNotFoundError / ConnectionRefusedError / OSError or '
        'succeeding, the clock any non-decreasing integer sequence that may move at each read and each sleep); a real process that dies is outside',
        'opaque argument expressions evaluated once concretely in the real module namespace',
        'translation validated on every run by replaying sequential + random schedules on real threads (sys.settrace line scheduler) and comparing outcomes; and by explicit-state enumeration of the same IR',
        'sub-line (bytecode-level) preemption outside',
    ]
    discharged = sum(1 for q in queries if q['verdict'] == 'unsat' or (q.get('inductive') or {}).get('proved'))
    cov = {'obligations': len(scns) + sum(1 for q in qs if q.kind == 'main'), 'discharged': discharged + sum(1 for q in qs if q.kind == 'main' and q.result['status'] == 'confirmed'),
           'states': max(1, states), 'transitions': max(1, trans), 'traces_validated_against_impl': validated,
           'scenarios': len(scns), 'bmc_unsat': unsat, 'bmc_sat': sat, 'bmc_unknown_timeout': unknown, 'inductive_proved': proved,
           'bmc_solver_s': round(solver_s, 2), 'bmc_queries': queries}
    return rep.finish(
        explanation='z3 bounded model checking (QF_BV) of a line-level transition system regenerated from the '
                    'current AST of supp/remote.py; the schedule is a vector of solver variables; unsat = no '
                    'interleaving of the scenario violates the property. States/transitions are counted by an '
                    'explicit enumeration of the same IR (cross-check). Server side: CrossHair over the real Server.run.',
        rule='one BMC query per scenario; states/transitions from explicit enumeration of the same transition system',
        extra_cov=cov)


def _match_known(known, name, rbad):
    for k in known:
        m = k.get('match', {})
        if m.get('scenario') == name and any(m.get('problem', '') in b for b in rbad):
            return k['what']
    return None


def _replay_launch(q, args, kwargs):
    h = runner.load_module(LAUNCH_HARNESS, 'h_c16_launch_native')
    n = args[0]
    kinds = list(args[1:6])[:n]
    bad, out = h.handshake(kinds, args[6], list(args[7:13]), list(args[13:18]))
    if not bad:
        return {'violated': False}
    names = ['FileNotFoundError', 'ConnectionRefusedError', 'OSError', 'success']
    return {'violated': True, 'known': None,
            'what': 'launch handshake, attempts %r, clock start %r, advance per read %r, per sleep %r: %s (outcome %r)'
                    % ([names[k] for k in kinds], args[6], list(args[7:13]), list(args[13:18]), '; '.join(bad), out),
            'replay': {'launch_args': list(args)}}


def _twin(src):
    import re
    m = re.search(r'^def server_exits\(.*?(?=^def |\Z)', src, re.S | re.M)
    return m.group(0).replace('def server_exits(', 'def server_exits__twin(', 1).replace('TWIN[0]', 'True')


def _replay_server(q, args, kwargs):
    h = runner.load_module(SERVER_HARNESS, 'h_c16_native')
    n, a, b, c = args
    script = [a, b, c][:n]
    ok = h.run_script(script)
    if ok:
        return {'violated': False}
    names = ['request', 'close', 'EOF', 'undecodable bytes']
    return {'violated': True, 'known': None,
            'what': 'Server.run does not stop/answer correctly on message script %r' % [names[k] for k in script],
            'replay': {'script': script}}


def replay_file(obj):
    if 'schedule' in obj:
        scn = B.Scenario(B.Compiler(REMOTE), obj['scenario'])
        real = B.replay_real(scn, obj['schedule'], REMOTE)
        bad = real_problems(scn, real)
        print(json.dumps(real, default=repr))
        if bad:
            print('VIOLATION property=%s replay=given' % PID)
            print('  ' + '; '.join(bad))
            return 1
        print('not reproduced')
        return 0
    if 'launch_args' in obj:
        v = _replay_launch(None, obj['launch_args'], {})
    else:
        v = _replay_server(None, [len(obj['script'])] + (obj['script'] + [0, 0, 0])[:3], {})
    if v['violated']:
        print('VIOLATION property=%s replay=given' % PID)
        print('  ' + v['what'])
        return 1
    print('not reproduced')
    return 0
