"""C15 remote calls transparent / failures isolated (solver-enumerated request scripts over an in-memory connection)."""
import os

from props.simple import copy_fn, report_violation
from vlib import runner
from vlib.runner import Query, Report

PID = 'C15'
H = os.path.join(runner.VERIF, 'harness', 'h_c15.py')


def _setup():
    root = os.path.join(runner.WORK, PID, 'proj')
    os.environ['VERIF_C15_ROOT'] = root
    h = runner.load_module(H, 'h_c15_native')
    h.materialise(root)
    return h


def replay(q, args, kwargs):
    h = _setup()
    if q.meta.get('fn') == 'history':
        script = h.history_script(*args)
        bad = h.problems(script)
        if not bad:
            return {'violated': False}
        return {'violated': True, 'known': None, 'what': 'request history %r: %s' % (script, '; '.join(bad)),
                'replay': {'history_args': list(args)}}
    n, a, b, c = args
    script = [a, b, c][:n]
    bad = h.problems(script)
    if not bad:
        return {'violated': False}
    return {'violated': True, 'known': None, 'what': 'request script %r: %s' % ([h.KINDS[k] for k in script], '; '.join(bad)),
            'replay': {'args': args}}


def run(tier, seed):
    rep = Report(PID, tier, seed, 'other')
    runner.workdir(PID)
    h = _setup()
    src = open(H).read()
    qs = []
    for n in (1, 2, 3):
        slices = [None] if n < 3 else ['a == %d' % a for a in (range(16) if tier == 'thorough' else (0, 1, 5, 7, 8, 10, 11, 13, 15))]
        for i, sl in enumerate(slices):
            pre = 'n == %d' % n + (' and ' + sl if sl else '')
            new = 'script_n%d_%d' % (n, i)
            qs.append(Query(new, src + '\n\n' + copy_fn(src, 'check', new, pre), new, 'main', 300, per_path=30, meta={}, label='E'))
    qs.append(Query('history', src, 'history', 'main', 300, per_path=30, meta={'fn': 'history'}, label='E'))
    qs.append(Query('history__twin', src + '\n\n' + copy_fn(src, 'history', 'history__twin', 'warm == 0 and fail == 0 and edit_first == 0 and final == 0', twin=True),
                    'history__twin', 'twin', 60, meta={'fn': 'history'}))
    qs.append(Query('check__twin', src + '\n\n' + copy_fn(src, 'check', 'check__twin', 'n == 1 and a == 0', twin=True), 'check__twin', 'twin', 60))
    runner.run_queries(PID, qs)
    rep.absorb(qs, replay)
    rep.functions = ['remote.Environment._call/configure/assist/location/lint/eval', 'server.Server.run/process/configure/assist/location/lint/eval',
                     'umsgpack.dumps/loads', 'compat.nstr']
    rep.bounds = ['request scripts of 1..3 requests over {configure, assist, location, lint, eval, unknown method, wrong arity, eval that raises, '
                  'eval with an unserialisable result (unsupported type, lone surrogate, self-referential list, integer beyond 64 bits), assist with a bad position type, assist with a namedtuple position, eval returning tuple/list subclasses (namedtuple, struct_time, list subclass), lint of a text star-importing a module with a syntax error}' + ('' if tier == 'thorough' else ' (3-request scripts: 9 of 16 first requests)')]
    rep.bounds.append('request histories (360): configure; a request analysing mod.py (5 kinds); one of 9 failing requests and an edit of mod.py (new content, new '
                      'modification time) in either order; a request reading mod.py again (4 kinds)')
    rep.assumptions = ['solver-enumerated (E): every path is one concrete script',
                       'the connection pair is in memory; Server.run is driven one message at a time (poll() raises a harness BaseException when '
                       'the inbox is empty); the real subprocess, multiprocessing connection, OS failures and multi-MiB payloads are outside '
                       '(payload sizes are covered by C14)',
                       'oracle: the in-process API on a new Project over the same files for every request (no history); edits are an overlay on supp.module.getmtime/open seen by both sides']
    rep.samples.append({'script': ['configure', 'eval_raises', 'assist']})
    return rep.finish('CrossHair enumerates request scripts; on each path the real client methods and the real server loop exchange real '
                      'MessagePack bytes: every reply equals the in-process result (tuples as lists), failures surface as exceptions with the '
                      "server's message, do not change later replies and do not end the server loop.", 'one obligation per script length / first request')


def replay_file(obj):
    class Q:
        meta = {'fn': 'history'} if 'history_args' in obj else {}
    return report_violation(PID, replay(Q, obj.get('history_args') or obj['args'], {}))
