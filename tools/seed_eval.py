#!/usr/bin/env python3
"""Confirm a seeded change and run the checks against it.
usage: tools/seed_eval.py <dir with patch.diff demo.py meta.json> [--checks C01,C02] [--tier quick]
1. in a scratch worktree outside /repo and /verif: the patch applies, the 175 tests pass with it, demo.py fails
   with it and passes without it;  2. the patch is applied to /repo, the listed checks run, and /repo is restored
straight afterwards;  3. the change is stored under /verif/seeded/<id>/ with what was run and what caught it."""
import json
import os
import shutil
import subprocess
import sys
import time

REPO, VERIF = '/repo', '/verif'


def sh(cmd, cwd=None, timeout=3000):
    p = subprocess.run(cmd, shell=True, cwd=cwd, stdout=subprocess.PIPE, stderr=subprocess.STDOUT, text=True, timeout=timeout)
    return p.returncode, p.stdout


def main():
    d = os.path.abspath(sys.argv[1])
    checks = None
    tier = 'quick'
    for i, a in enumerate(sys.argv):
        if a == '--checks':
            checks = sys.argv[i + 1].split(',')
        if a == '--tier':
            tier = sys.argv[i + 1]
    meta = json.load(open(os.path.join(d, 'meta.json')))
    sid = os.path.basename(d.rstrip('/'))
    prop = meta['property']
    checks = checks or [prop]
    wt = '/tmp/confirm_%s_%d' % (sid, os.getpid())
    out = {'confirmed': False}
    rc, o = sh('git -C %s worktree add -q %s HEAD' % (REPO, wt))
    try:
        shutil.copytree(d, os.path.join(wt, '_seed', sid))
        rc, o = sh('git apply _seed/%s/patch.diff' % sid + ' || git apply -3 _seed/%s/patch.diff' % sid, cwd=wt)
        out['patch_applies'] = rc == 0
        rc, o = sh('/venv/bin/python -m pytest -q -p no:cacheprovider 2>&1 | tail -1', cwd=wt)
        out['tests_with_change'] = o.strip()
        import re
        tests_ok = not re.search(r'\b\d+ (failed|error)', o) and 'passed' in o
        rc1, o1 = sh('/venv/bin/python _seed/%s/demo.py' % sid, cwd=wt, timeout=600)
        out['demo_with_change_rc'] = rc1
        # (no git stash here: the stash is shared between worktrees, parallel evaluations would swap patches)
        sh('git reset -q; git checkout HEAD -- supp', cwd=wt)      # (apply -3 stages what it merges)
        rc2, o2 = sh('/venv/bin/python _seed/%s/demo.py' % sid, cwd=wt, timeout=600)
        rc3, o3 = sh('git apply _seed/%s/patch.diff' % sid + ' || git apply -3 _seed/%s/patch.diff' % sid, cwd=wt)
        out['patch_reapplied'] = rc3 == 0
        out['demo_without_change_rc'] = rc2
        out['confirmed'] = bool(out['patch_applies'] and tests_ok and rc1 != 0 and rc2 == 0 and rc3 == 0)
        out['demo_output_with_change'] = o1[-600:]
    except Exception:
        sh('git -C %s worktree remove --force %s' % (REPO, wt))
        raise
    print(json.dumps(out, indent=1))
    if not out['confirmed']:
        sh('git -C %s worktree remove --force %s' % (REPO, wt))
        print('NOT CONFIRMED: not kept')
        return 2
    # run the checks against the patched tree.  Default: the scratch worktree (VERIF_REPO), so that /repo stays
    # untouched and several evaluations can run side by side; --in-repo applies the patch to /repo itself instead
    in_repo = '--in-repo' in sys.argv
    results = {}
    env = ''
    if in_repo:
        sh('git -C %s worktree remove --force %s' % (REPO, wt))
        rc, o = sh('git -C %s status --porcelain' % REPO)
        if o.strip():
            print('refusing: /repo is not clean')
            return 3
        rc, o = sh('git -C %s apply %s' % (REPO, os.path.join(d, 'patch.diff')))
    else:
        shutil.rmtree(os.path.join(wt, '_seed'), ignore_errors=True)
        env = 'VERIF_REPO=%s PYTHONPATH=%s VERIF_WORK=%s ' % (wt, wt, '/verif/.work_' + sid)
    try:
        for c in checks:
            t0 = time.time()
            rc, o = sh(env + './check %s --tier %s' % (c, tier), cwd=VERIF, timeout=6000)
            viol = [l for l in o.splitlines() if l.startswith('VIOLATION')]
            first = ''
            lines = o.splitlines()
            for i, l in enumerate(lines):
                if l.startswith('VIOLATION'):
                    first = '\n'.join(lines[i:i + 8])[:1500]
                    break
            results[c] = {'exit': rc, 'violations': len(viol), 'wall_s': round(time.time() - t0, 1),
                          'summary': lines[-1] if lines else '', 'first_violation': first}
            print(c, 'exit', rc, 'violations', len(viol), lines[-1] if lines else '')
    finally:
        if in_repo:
            sh('git -C %s checkout -- .' % REPO)
        else:
            sh('git -C %s worktree remove --force %s' % (REPO, wt))
            shutil.rmtree('/verif/.work_' + sid, ignore_errors=True)
    dest = os.path.join(VERIF, 'seeded', sid)
    os.makedirs(dest, exist_ok=True)
    for f in ('patch.diff', 'demo.py'):
        shutil.copy(os.path.join(d, f), os.path.join(dest, f))
    meta['confirmation'] = out
    meta['what_was_run'] = ['git apply patch.diff in a scratch worktree; /venv/bin/python -m pytest -q (all pass); demo.py fails with the change, passes without',
                            ('git -C /repo apply patch.diff; ' if in_repo else 'patch applied in a scratch worktree, checks run with VERIF_REPO pointing at it; ') + '; '.join('./check %s --tier %s' % (c, tier) for c in checks) + ('; git -C /repo checkout -- .' if in_repo else '; worktree removed')]
    meta['checks'] = results
    meta['caught_by'] = [c for c, r in results.items() if r['exit'] == 1 and r['violations']]
    json.dump(meta, open(os.path.join(dest, 'meta.json'), 'w'), indent=1)
    print('caught_by', meta['caught_by'])
    return 0


if __name__ == '__main__':
    sys.exit(main())
