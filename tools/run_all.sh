#!/bin/sh
# run every check of MANIFEST.json (quick or thorough) one after the other; summary lines to stdout
TIER=${1:-quick}
cd "$(dirname "$0")/.."
for p in C01 C02 C03 C04 C05 C06 C07 C08 C09 C10 C11 C12 C13 C14 C15 C16 C17; do
  s=$(date +%s)
  ./check $p --tier $TIER > .work/run_$p.log 2>&1
  rc=$?
  echo "$p rc=$rc $(( $(date +%s) - s ))s $(grep -c '^VIOLATION' .work/run_$p.log) violations; $(tail -1 .work/run_$p.log | cut -c1-220)"
done
