"""C11: reported positions point at the identifier.  (S) def/class headers and import statements are built
from symbolic pieces (identifier strings, runs of spaces); the real SourceScope.find_id_loc/find_def_loc,
FuncScope/ClassScope.__init__, visit_Import/visit_ImportFrom compute the position; oracle = where the
harness put the identifier."""
import ast

from vlib import symcont
symcont.install()
import supp.scope
import supp.name
from supp.util import Source
from supp.scope import SourceScope, FuncScope, ClassScope
from supp.nast import extract

PATHS = [0]
TWIN = [False]
ALPHA = 'acdefilmoprsty'
KW = ('as', 'if', 'is', 'in', 'or', 'def', 'del', 'for', 'try', 'and', 'not', 'else', 'elif', 'from', 'pass', 'class', 'raise', 'yield')


def ok_name(s, lo, hi):
    if not (lo <= len(s) <= hi):
        return False
    for ch in s:
        if ch not in ALPHA:
            return False
    n = len(s)
    for k in KW:
        # (only words of the same length: comparing a symbolic string with a longer constant made CrossHair
        # report candidates that do not reproduce)
        if len(k) == n and s == k:
            return False
    return True


def _c(v, lo, hi):
    """solver variable compared with each value of its finite domain (explicit branches)"""
    for j in range(lo, hi + 1):
        if v == j:
            return j
    return lo


def scope_for(lines):
    src = Source('\n'.join(lines), 'f.py')
    src.__dict__['lines'] = lines
    return SourceScope(src)


def text_at(lines, loc, n):
    l, c = loc
    if l < 1 or l > len(lines):
        return None
    return lines[l - 1][c:c + n]


def header(kind: int, name: str, ind: int, n1: int, n2: int, deco: int, cont: int = 0) -> bool:
    """
    pre: 0 <= kind <= 2
    pre: ok_name(name, 1, 5)
    pre: 0 <= ind <= 1 and 0 <= n1 <= 3 and 0 <= n2 <= 2 and 0 <= deco <= 1 and 0 <= cont <= 1
    pre: n1 >= 1 or cont == 1
    post: _
    """
    PATHS[0] += 1
    kind, ind, n1, n2, deco, cont = _c(kind, 0, 2), _c(ind, 0, 1), _c(n1, 0, 3), _c(n2, 0, 2), _c(deco, 0, 1), _c(cont, 0, 1)
    indent = ' ' * (4 * ind)
    if kind == 0:
        kw = 'def'
    elif kind == 1:
        kw = 'async def'
    else:
        kw = 'class'
    tail = name + ' ' * n2 + ('(object):' if kind == 2 else '(self):')
    lines = []
    if ind:
        lines.append('class outer:')
    if deco:
        lines.append(indent + '@deco')
    if cont:
        # backslash continuation between the keyword and the name
        lines.append(indent + kw + ' ' + chr(92))
        lines.append(' ' * n1 + tail)
    else:
        lines.append(indent + kw + ' ' * n1 + tail)
    lines.append(indent + '    pass')
    hl = len(lines) - 1 - cont   # 1-based line of the keyword
    if kind == 2:
        node = ast.parse('class f(object):\n    pass\n').body[0]
    elif kind == 1:
        node = ast.parse('async def f(self):\n    pass\n').body[0]
    else:
        node = ast.parse('def f(self):\n    pass\n').body[0]
    node.name = name
    node.lineno = hl
    node.col_offset = 4 * ind
    node.body[0].lineno = hl + 1 + cont
    node.body[0].col_offset = 4 * ind + 4
    top = scope_for(lines)
    sc = ClassScope(top, node, top) if kind == 2 else FuncScope(top, node, top)
    want = (hl + 1, n1) if cont else (hl, 4 * ind + len(kw) + n1)
    if TWIN[0]:
        return False
    return sc.declared_at[0] == want[0] and sc.declared_at[1] == want[1] and \
        text_at(lines, sc.declared_at, len(name)) == name


IDS = ('a', 'f', 'im', 'aso', 'a_much_longer_alias')     # chosen to collide with the words of an import statement


def imports(form: int, mi: int, xi: int, yi: int, zi: int, s1: int, s2: int, s3: int) -> bool:
    """
    pre: 0 <= form <= 8
    pre: 0 <= mi <= 2 and 0 <= xi <= 4 and 0 <= yi <= 4 and 0 <= zi <= 2
    pre: 1 <= s1 <= 2 and 1 <= s2 <= 2 and 0 <= s3 <= 2
    post: _
    """
    PATHS[0] += 1
    from crosshair.tracers import NoTracing
    form, s1, s2, s3 = _c(form, 0, 8), _c(s1, 1, 2), _c(s2, 1, 2), _c(s3, 0, 2)
    mi, xi, yi, zi = _c(mi, 0, 2), _c(xi, 0, 4), _c(yi, 0, 4), _c(zi, 0, 2)
    with NoTracing():
        if TWIN[0]:
            return False
        return imports_concrete(form, IDS[mi], IDS[xi], IDS[yi], IDS[zi], s1, s2, s3)


def imports_concrete(form, m, x, y, z, s1, s2, s3):
    A, B, C = ' ' * s1, ' ' * s2, ' ' * s3
    lines = None
    want = []       # (bound identifier, (line, col))
    al = []         # (name, asname, line, col)
    if form <= 3:
        head = 'import' + A
        p = len(head)
        if form == 0:
            text = head + x
            al = [(x, None, 1, p)]
            want = [(x, (1, p))]
        elif form == 1:
            text = head + x + B + 'as' + B + y
            al = [(x, y, 1, p)]
            want = [(y, (1, p + len(x) + 2 * s2 + 2))]
        elif form == 2:
            text = head + x + ',' + C + y
            al = [(x, None, 1, p), (y, None, 1, p + len(x) + 1 + s3)]
            want = [(x, (1, p)), (y, (1, p + len(x) + 1 + s3))]
        else:
            text = head + x + '.' + z + B + 'as' + B + y + ',' + C + y
            p2 = p + len(x) + 1 + len(z) + 2 * s2 + 2
            al = [(x + '.' + z, y, 1, p), (y, None, 1, p2 + len(y) + 1 + s3)]
            want = [(y, (1, p2)), (y, (1, p2 + len(y) + 1 + s3))]
        lines = [text]
        node = ast.Import(names=[ast.alias(name=n, asname=a, lineno=l, col_offset=c) for n, a, l, c in al],
                          lineno=1, col_offset=0)
    else:
        head = 'from' + A + m + A + 'import' + B
        p = len(head)
        if form == 4:
            lines = [head + x]
            al = [(x, None, 1, p)]
            want = [(x, (1, p))]
        elif form == 5:
            lines = [head + x + B + 'as' + B + y]
            al = [(x, y, 1, p)]
            want = [(y, (1, p + len(x) + 2 * s2 + 2))]
        elif form == 6:
            lines = [head + x + ',' + C + y]
            al = [(x, None, 1, p), (y, None, 1, p + len(x) + 1 + s3)]
            want = [(x, (1, p)), (y, (1, p + len(x) + 1 + s3))]
        elif form == 7:
            q = p + len(x) + 2 * s2 + 2
            r = q + len(y) + 1 + s3
            lines = [head + x + B + 'as' + B + y + ',' + C + y + B + 'as' + B + x]
            al = [(x, y, 1, p), (y, x, 1, r)]
            want = [(y, (1, q)), (x, (1, r + len(y) + 2 * s2 + 2))]
        else:
            lines = [head + '(' + x + ',', A + y + B + 'as' + B + z + ')']
            al = [(x, None, 1, p + 1), (y, z, 2, s1)]
            want = [(x, (1, p + 1)), (z, (2, s1 + len(y) + 2 * s2 + 2))]
        node = ast.ImportFrom(module=m, level=0,
                              names=[ast.alias(name=n, asname=a, lineno=l, col_offset=c) for n, a, l, c in al],
                              lineno=1, col_offset=0)
    tree = ast.Module(body=[node], type_ignores=[])
    top = scope_for(lines)
    extract(tree, top.flow)
    got = [(n.name, n.declared_at) for n in top.flow._names]
    if TWIN[0]:
        return False
    # one binding per alias, each at the identifier the alias binds
    if len(got) != len(want):
        return False
    for ident, loc in want:
        found = False
        for gname, gloc in got:
            if gname == ident and gloc[0] == loc[0] and gloc[1] == loc[1]:
                found = True
        if not found:
            return False
        if text_at(lines, loc, len(ident)) != ident:
            return False
    return True


# ------------------------------------------------------------------ every binding kind, every entry point (E)
def bindings_ok(text):
    """all bindings of a real program: position inside the file, text at the position is the identifier
    ('except' for except-as); lint and location() report the same positions as SourceScope.all_names"""
    from supp.linter import lint
    from supp.assistant import location
    from supp.project import Project
    from supp.nast import extract_scope
    import supp.name
    p = Project(['/nonexistent-root'])
    src = Source(text, 'f.py')
    sc = extract_scope(src, p)
    lines = text.split('\n')
    decl = {}
    bad = []
    handler_lines = {n.lineno: n for n in ast.walk(src.tree) if isinstance(n, ast.ExceptHandler)}
    for flow, n in sc.all_names:
        l, c = n.declared_at
        if not (1 <= l <= len(lines)) or c > len(lines[l - 1]):
            bad.append('%s: position %r outside the file' % (n.name, (l, c)))
            continue
        at = lines[l - 1][c:c + len(n.name)]
        if at != n.name:
            h = handler_lines.get(l)
            if not (h is not None and h.name == n.name and lines[l - 1][c:c + 6] == 'except'):
                bad.append('%s: text at %r is %r' % (n.name, (l, c), lines[l - 1][c:c + len(n.name) + 3]))
        decl.setdefault(n.name, set()).add((l, c))
    for r in lint(p, text, 'f.py'):
        if r[0] in ('W01', 'W02'):
            nm = r[1].split(': ')[1]
            if (r[2], r[3]) not in decl.get(nm, set()):
                bad.append('lint reports %s at %r, all_names has it at %r' % (nm, (r[2], r[3]), sorted(decl.get(nm, ()))))
    for n in ast.walk(src.tree):
        if isinstance(n, ast.Name) and isinstance(n.ctx, ast.Load):
            try:
                locs = location(p, text, (n.lineno, n.col_offset + len(n.id)), 'f.py')
            except SyntaxError:
                continue
            flat = []
            for x in locs:
                flat.extend(x if isinstance(x, list) else [x])
            for x in flat:
                if x['file'] == 'f.py' and tuple(x['loc']) not in decl.get(n.id, set()):
                    bad.append('location() of %s gives %r, all_names has %r' % (n.id, x['loc'], sorted(decl.get(n.id, ()))))
    return bad


SELF_A = 'import c11b\nc11b.foo; foo = 1\n'       # the edited file itself, reached again through c11b
LIB = {'c11lib.py': 'x = 1\ndef      spaced(): pass\nclass         Wide: pass\nvalue_far_right_____________ = x; target = 2\n',
       'c11a.py': SELF_A, 'c11b.py': 'from c11a import foo\n'}
CROSS = ['import c11lib\nc11lib.spaced\nc11lib.Wide\nc11lib.target\n',
         'from c11lib import spaced, Wide, target\nspaced\nWide\ntarget\n',
         SELF_A]


def materialise(path):
    import os
    os.makedirs(path, exist_ok=True)
    for rel, text in LIB.items():
        with open(os.path.join(path, rel), 'w') as f:
            f.write(text)


def cross_file_ok(text):
    """go-to-definition into another file reports the position that file's own analysis enumerates"""
    import os
    from supp.assistant import location
    from supp.project import Project
    root = os.environ.get('VERIF_C11_ROOT', '')
    if text == SELF_A:
        # every reported position lies inside the named file and the text there is the identifier
        bad = []
        for col in (5, 6, 7, 8):
            for x in location(Project([root]), text, (2, col), os.path.join(root, 'c11a.py')):
                for y in (x if isinstance(x, list) else [x]):
                    lines = LIB[os.path.basename(y['file'])].split('\n')
                    l, c = y['loc']
                    if not (1 <= l <= len(lines) and 0 <= c and lines[l - 1][c:c + 3] == 'foo'):
                        bad.append('go-to-definition of c11b.foo (cursor column %d) reports %r in %s' % (col, y['loc'], os.path.basename(y['file'])))
        return bad
    p = Project([root])
    lib = p.get_module('c11lib')
    decl = {}
    for flow, n in lib.scope.all_names:
        decl.setdefault(n.name, set()).add(tuple(n.declared_at))
    bad = []
    for n in ast.walk(ast.parse(text)):
        ident = n.attr if isinstance(n, ast.Attribute) else n.id if isinstance(n, ast.Name) and isinstance(n.ctx, ast.Load) else None
        if ident in ('spaced', 'Wide', 'target') and n.end_lineno == n.lineno:
            locs = location(Project([root]), text, (n.end_lineno, n.end_col_offset), os.path.join(root, 'main.py'))
            flat = []
            for x in locs:
                flat.extend(x if isinstance(x, list) else [x])
            for x in flat:
                if x['file'].endswith('c11lib.py') and tuple(x['loc']) not in decl.get(ident, set()):
                    bad.append('go-to-definition of %s gives %r in c11lib.py, its own analysis enumerates %r'
                               % (ident, x['loc'], sorted(decl.get(ident, ()))))
            if not [x for x in flat if x['file'].endswith('c11lib.py')]:
                bad.append('go-to-definition of %s does not reach c11lib.py' % ident)
    return bad


def programs():
    from vlib import family, tharness
    out = []
    for sh in tharness.all_shapes():
        if sh.name.startswith('enum_') and int(sh.name[5:]) % 10:
            continue
        parts = [q for q in family.var_partitions(sh, 60) if tharness.compiles(sh, q, [])]
        if parts:
            out.append(family.render(sh, tharness.canon(sh, parts[-1], [])))
            if len(parts) > 1:
                # few distinct names: bindings and reads of one name share lines (cursor-line positions)
                out.append(family.render(sh, tharness.canon(sh, parts[0], [])))
    out += [
        'y = 1\nz = [xx for xx in y]\nw = (q := 1) + q; v = w\nfor k in k: k = k\n',
        'import os, sys as system\nfrom os import path as p, sep\nfrom os.path import (join,\n    split as sp)\nprint(system, p, sep, join, sp)\n',
        '@property\nasync def de(x, *a, k=1, **kw):\n    async with x as y: pass\n    async for z in y: pass\n    return a, k, kw, z\n',
        'class  Cl (object):\n    class In: pass\n    def  In2(self): return self\n',
        'a, (b, *c), [d, e] = x\nfor (i, j), k in y: pass\nwith o() as (m, n): pass\nprint(a, b, c, d, e, i, j, k, m, n)\n',
        'try:\n    pass\nexcept (A, B) as err:\n    print(err)\nexcept C as err2: print(err2)\n',
        'x = 1; y = 2; z = x if y else (w := 3)\nprint(z, w)\n',
        'def f(a, b=1, /, c=2, *, d, **e): return a, b, c, d, e\nlam = lambda q, *r: (q, r)\n',
        'def \\\n    continued(a):\n    return a\nclass \\\n  Cont: pass\nasync \\\n def \\\n  both(): pass\nprint(continued, Cont, both)\n',
        'import os as operating_system, sys as s\nfrom os import sep as separator_char, path as p\nprint(operating_system, s, separator_char, p)\n',
        'def \\\nzero(): pass\nclass \\\nKlass: pass\nimport os as \\\nosmod\nfrom os import (path as\npth)\nprint(zero, Klass, osmod, pth)\n',
        'class Aq\\\n  (object): pass\nimport os as oq# c\nx = 1\n\x0cdef after_ff(): pass\nprint(Aq, oq, after_ff)\n',
    ]
    return out


PROGRAMS = programs() + CROSS


def all_bindings(case: int) -> bool:
    """
    pre: 0 <= case < NPROG
    post: _
    """
    PATHS[0] += 1
    from crosshair.tracers import NoTracing
    c = _c(case, 0, len(PROGRAMS) - 1)
    with NoTracing():
        if TWIN[0]:
            return False
        if PROGRAMS[c] in CROSS:
            return not cross_file_ok(PROGRAMS[c])
        return not bindings_ok(PROGRAMS[c])


NPROG = len(PROGRAMS)
