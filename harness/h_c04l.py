"""C04 companion: a read examined by a whole-file lint gets the same verdict as the same position queried alone.
Programs with several reads and bindings on one physical line (';'-joined statements, one-line compound
statements, conditional expressions, walrus): lint reports E02 for a read exactly when name completion on a new
project does not offer the identifier there.  Solver-enumerated (E)."""
import ast

from supp.assistant import assist
from supp.linter import lint
from supp.project import Project

PATHS = [0]
TWIN = [False]

HAND = [
    'def f(path):\n    with open(path) as fh: data = fh.read()\n    return data\n',
    'def f(data, limit):\n    if (size := len(data)) > limit and size: return size\n    return 0\n',
    'import os; x = os.getcwd(); print(x)\n',
    'def f(src):\n    head = src.head; tail = head.tail; return tail\n',
    'for i in [1]: print(i); j = i; print(j)\n',
    'def f(g):\n    y = a if (a := g()) else a\n    return y, a\n',
    'x = 1; y = x; z = y; print(x, y, z); w = z\n',
    'try: a = 1; b = a\nexcept E as e: print(e); c = e; print(c)\nelse: print(a, b)\n',
    'class K: a = 1; b = a; print(a, b)\n',
    'lam = lambda p, q=1: (p, q, (r := p), r); print(lam, undefined_name)\n',
    'def f():\n    for k, v in items: total = k; print(total, v); k2 = v\n    return k2, total\n',
    'while cond: cond = step(cond); last = cond; print(last)\n',
    'xs = [n for n in range(3) if n]; print(xs, n2 if (n2 := 1) else 0)\n',
]


def family_programs():
    from vlib import family, tharness, layout
    out = []
    for sh in tharness.all_shapes():
        if sh.name.startswith('enum_') and int(sh.name[5:]) % 10:
            continue
        parts = [q for q in family.var_partitions(sh, 40) if tharness.compiles(sh, q, [])]
        if not parts:
            continue
        text = family.render(sh, tharness.canon(sh, parts[len(parts) // 2], []))
        lines = text.splitlines()
        el = layout.eligible(lines)
        cs = layout.structure(ast.parse(text))
        # the layout that puts as much as possible on one line: all joins and one-liners that still give the same tree
        on = set()
        for f in el:
            if f[0] in ('join', 'oneline'):
                trial = frozenset(on | {f})
                if layout.affine(lines, trial, cs) is not None:
                    on = set(trial)
        if on:
            relaid, _ = layout.apply(lines, frozenset(on), {'width': 4})
            out.append(relaid)
    return out


PROGRAMS = HAND + family_programs()
NPROG = len(PROGRAMS)


def problems(i):
    text = PROGRAMS[i]
    res = lint(Project(['/nonexistent-root']), text, 'f.py')
    flagged = {(r[2], r[3]) for r in res if r[0] == 'E02'}
    bad = []
    for n in ast.walk(ast.parse(text)):
        if isinstance(n, ast.Name) and isinstance(n.ctx, ast.Load):
            try:
                prefix, props = assist(Project(['/nonexistent-root']), text, (n.lineno, n.col_offset + len(n.id)), 'f.py')
            except SyntaxError:
                continue
            visible = n.id in props
            if ((n.lineno, n.col_offset) in flagged) == visible:
                bad.append('%s at %r: the whole-file lint says %s, the same position queried alone %s it'
                           % (n.id, (n.lineno, n.col_offset), 'E02 undefined' if not visible or (n.lineno, n.col_offset) in flagged else 'defined',
                              'offers' if visible else 'does not offer'))
    return bad


def check(case: int) -> bool:
    """
    pre: 0 <= case < NPROG
    post: _
    """
    PATHS[0] += 1
    from crosshair.tracers import NoTracing
    c = 0
    for j in range(NPROG):
        if case == j:
            c = j
    with NoTracing():
        if TWIN[0]:
            return False
        return not problems(c)
