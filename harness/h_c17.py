"""C17: results must not depend on the iteration order of sets of identity-hashed objects.
The global name `set` of supp.name / supp.scope / supp.evaluator is rebound to NondetSet, whose iteration
order is a permutation chosen by solver variables (the documented contract of a set is "any order"; this is
the process-to-process variation the property is about).  (E): a finite permutation choice, each path concrete."""
import itertools
import os
import tempfile

import supp.name
import supp.scope
import supp.evaluator
import supp.assistant
import supp.project
import supp.linter
from supp.assistant import location, assist
from supp.project import Project

PATHS = [0]
TWIN = [False]
CHOICES = []
USED = [0]
_PERMS = {k: list(itertools.permutations(range(k))) for k in range(1, 5)}


class NondetSet(set):
    """set whose iteration order is chosen by the harness (insertion order permuted)"""

    def __init__(self, it=()):
        set.__init__(self)
        self._order = []
        for x in it:
            self.add(x)

    def add(self, x):
        if x not in self:
            set.add(self, x)
            self._order.append(x)

    def update(self, *its):
        for it in its:
            for x in it:
                self.add(x)

    def remove(self, x):
        set.remove(self, x)
        self._order.remove(x)

    def discard(self, x):
        if x in self:
            self.remove(x)

    def difference(self, *others):
        return NondetSet(x for x in self._order if not any(x in o for o in others))

    def __iter__(self):
        k = len(self._order)
        if k <= 1:
            return iter(list(self._order))
        if k > 4:
            # large sets: six representative orders instead of all k! (identity, reversed, rotated, ...)
            i = USED[0]
            USED[0] += 1
            o = (CHOICES[i % len(CHOICES)] if CHOICES else 0) % 6
            items = list(self._order)
            if o == 1:
                items.reverse()
            elif o == 2:
                items = items[k // 2:] + items[:k // 2]
            elif o == 3:
                items = items[1::2] + items[0::2]
            elif o == 4:
                items = sorted(items, key=repr)
            elif o == 5:
                items = sorted(items, key=repr, reverse=True)
            return iter(items)
        i = USED[0]
        USED[0] += 1
        o = CHOICES[i % len(CHOICES)] if CHOICES else 0
        perms = _PERMS[k]
        return iter([self._order[p] for p in perms[o % len(perms)]])


def install():
    supp.name.set = NondetSet
    supp.scope.set = NondetSet
    supp.evaluator.set = NondetSet
    supp.assistant.set = NondetSet
    supp.project.set = NondetSet
    supp.linter.set = NondetSet


def uninstall():
    for m in (supp.name, supp.scope, supp.evaluator, supp.assistant, supp.project, supp.linter):
        if 'set' in m.__dict__:
            del m.__dict__['set']


CASES = [
    # (main source, cursor (line, col) for location, other project modules)
    ('if a:\n    x = 1\nelif b:\n    x = 2\nelse:\n    x = 3\nx\n', (7, 1), {}),
    ('try:\n    x = 1\nexcept E:\n    x = 2\nelse:\n    x = 3\nx\n', (7, 1), {}),
    ('for i in y:\n    if c:\n        x = 1\n    else:\n        x = 2\nelse:\n    x = 3\nx\n', (8, 1), {}),
    ('from cm import x\nx\n', (2, 1), {'cm': 'if a:\n    x = 1\nelif b:\n    x = 2\nelse:\n    x = 3\n'}),
    ('import cm\ncm.x\n', (2, 4), {'cm': 'try:\n    x = 1\nexcept E:\n    x = 2\nx = 3 if a else x\n'}),
    ('while a:\n    if b:\n        x = 1\n    elif c:\n        x = 2\nx = 3 if d else 4\nif e:\n    x = 5\nx\n', (9, 1), {}),
    # nested groups that share their first definition (tie on a "first alternative" key)
    ('x = 0\nif a:\n    if b:\n        x = 1\nelse:\n    if c:\n        x = 2\nx\n', (8, 1), {}),
    ('x = 0\nfor i in y:\n    if b:\n        x = 1\n    else:\n        try:\n            x = 2\n        except E:\n            pass\nx\n', (10, 1), {}),
]
# completion lists whose members differ only by letter case (a case-insensitive sort would leave their order to the set)
ASSIST_CASES = [
    ('Handler = 1\nhandler = 2\nHANDLER = 3\nhAndler = 4\nhan', (5, 3), {}),
    ('import cm\ncm.', (2, 3), {'cm': 'Circle = 1\ncircle = 2\nCIRCLE = 3\ncIrcle = 4\n'}),
    # a submodule reached through a qualified import of a cached project module: asked repeatedly on one project
    ('import helper\nhelper.pkg.sub.', (2, 15), {'helper': 'import pkg.sub\n', 'pkg/__init__': '', 'pkg/sub': 'alpha = 1\nbeta = 2\ngamma = 3\n'}),
    # the same module name in several configured roots (first configured root wins, whatever a set would say)
    ('import shared\nshared.', (2, 7), {'src/shared': 'from_src = 1\n', 'vendor/shared': 'from_vendor = 1\n', 'third/shared': 'from_third = 1\n',
                                       'fourth/other': 'x = 1\n'}, ('src', 'vendor', 'third', 'fourth')),
    ('from shared import ', (1, 19), {'zz/shared': 'in_zz = 1\n', 'aa/shared': 'in_aa = 1\n'}, ('zz', 'aa')),
]
ROOT = [None]


def materialise(path):
    """called by props/c17.py before the queries start (CrossHair blocks file writes during analysis)"""
    for i, case in enumerate(CASES + ASSIST_CASES):
        mods = case[2]
        d = os.path.join(path, 'c%d' % i)
        os.makedirs(d, exist_ok=True)
        for m, text in mods.items():
            os.makedirs(os.path.dirname(os.path.join(d, m)), exist_ok=True)
            with open(os.path.join(d, m + '.py'), 'w') as f:
                f.write(text)


def root():
    return os.environ['VERIF_C17_ROOT']


def observe(i):
    if i >= len(CASES):
        case = ASSIST_CASES[i - len(CASES)]
        src, pos, mods = case[:3]
        d = os.path.join(root(), 'c%d' % i)
        roots = [os.path.join(d, r) for r in case[3]] if len(case) > 3 else [d]
        p = Project(roots)
        # the same request three times on one long-lived project, then once on a new one
        return [repr(assist(p, src, pos, os.path.join(d, 'main.py'))) for _ in range(3)] + \
               [repr(assist(Project(roots), src, pos, os.path.join(d, 'main.py')))]
    src, pos, mods = CASES[i]
    d = os.path.join(root(), 'c%d' % i)
    p = Project([d])
    loc = location(p, src, pos, os.path.join(d, 'main.py'))
    out = [repr(loc), repr(location(p, src, pos, os.path.join(d, 'main.py')))]
    for m in mods:
        mod = p.get_module(m)
        out.append(repr([(k, v.declared_at) for k, v in mod._attrs.items()]))
    return out


def source_order_ok(i, obs):
    """alternatives of a multiply-bound name are listed in source order"""
    import ast
    if len(set(obs[:2])) != 1 or (i >= len(CASES) and len(set(obs)) != 1):
        return False        # repeated identical requests answered differently
    if i >= len(CASES):
        case = ASSIST_CASES[i - len(CASES)]
        if len(case) > 3:
            # first configured root wins
            first = sorted(m for m in case[2] if m.startswith(case[3][0] + '/'))[0]
            member = case[2][first].split(' ')[0]
            return member in obs[0] and not any(t.split(' ')[0] in obs[0] for m, t in case[2].items()
                                                if m.endswith('/shared') and m != first)
        return True
    loc = ast.literal_eval(obs[0])
    for r in loc:
        if isinstance(r, list):
            ls = [tuple(x['loc']) for x in r]
            if ls != sorted(ls):
                return False
    return True


def run_case(i, choices):
    install()
    try:
        CHOICES[:] = []
        USED[0] = 0
        base = observe(i)
        CHOICES[:] = list(choices)
        USED[0] = 0
        got = observe(i)
    finally:
        CHOICES[:] = []
        uninstall()
    return base, got


def check(case: int, o0: int, o1: int, o2: int, o3: int = 0) -> bool:
    """
    pre: 0 <= case < 13
    pre: 0 <= o0 < 6 and 0 <= o1 < 6 and 0 <= o2 < 6 and 0 <= o3 < 6
    post: _
    """
    PATHS[0] += 1
    from crosshair.tracers import NoTracing
    i = _concrete(case, len(CASES) + len(ASSIST_CASES))
    ch = [_concrete(o0, 6), _concrete(o1, 6), _concrete(o2, 6), _concrete(o3, 6)]
    with NoTracing():
        base, got = run_case(i, ch)
        if TWIN[0]:
            return False
        return base == got and source_order_ok(i, got)


def _concrete(v, n):
    """explicit branches: the solver variable is compared with each value of its finite domain"""
    for j in range(n):
        if v == j:
            return j
    return 0
