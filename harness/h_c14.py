"""C14 harnesses: the real supp.umsgpack pack/unpack run under CrossHair with the stubs of
vlib/stubs/msgstubs.py; oracle = vlib/msgspec.py (written from the MessagePack specification)."""
import supp.umsgpack as u
from vlib.stubs.msgstubs import pstruct, HB, Blob, SStr, Dbl, Segs, W, R, BytesShim
from vlib import msgspec as S

u.struct = pstruct
u.bytes = BytesShim
PATHS = [0]
TWIN = [False]      # set by the *_twin wrappers: postcondition forced False to prove reachability


class FakeRange(object):
    LOG = []

    def __init__(self, n):
        FakeRange.LOG.append(n)

    def __iter__(self):
        return iter(())


class CList(list):
    """array whose element loop is cut: symbolic length, yields nothing"""

    def __init__(self, n):
        list.__init__(self)
        self.n = n

    def __len__(self):
        return self.n

    def __iter__(self):
        return iter(())


class CDict(dict):
    def __init__(self, n):
        dict.__init__(self)
        self.n = n

    def __len__(self):
        return self.n

    def items(self):
        return iter(())


def _pack(v):
    w = W()
    u.pack(v, w)
    return w.segs.items()


def _unpack(items, limit=None):
    return u.unpack(R(items, limit))


class _Rejected(object):
    """what _unpack_valid returns when the decoder raises on an encoding the specification allows"""


REJECTED = _Rejected()


def _unpack_valid(items):
    try:
        return u.unpack(R(items))
    except Exception:
        return REJECTED


def items_eq(a, b):
    if len(a) != len(b):
        return False
    for x, y in zip(a, b):
        if isinstance(x, Blob) or isinstance(y, Blob):
            if x is not y:
                return False
        elif x != y:
            return False
    return True


def val_eq(model, got):
    """real decoder output vs model value"""
    if isinstance(model, (SStr, Blob)):
        return got is model
    if isinstance(model, Dbl):
        return isinstance(got, Dbl) and got.bits == model.bits
    if model is None or model is True or model is False:
        return got is model
    if isinstance(model, int):
        return isinstance(got, int) and not isinstance(got, bool) and got == model
    if isinstance(model, tuple):
        # arrays decode to lists (tuples only as map keys, handled in the dict branch)
        return isinstance(got, list) and len(got) == len(model) and all(val_eq(a, b) for a, b in zip(model, got))
    if isinstance(model, list):
        return isinstance(got, list) and len(got) == len(model) and all(val_eq(a, b) for a, b in zip(model, got))
    if isinstance(model, dict):
        if not isinstance(got, dict) or len(got) != len(model):
            return False
        for (k, v), (gk, gv) in zip(model.items(), got.items()):
            if isinstance(k, tuple):
                if not key_eq(k, gk):
                    return False
            elif not val_eq(k, gk):
                return False
            if not val_eq(v, gv):
                return False
        return True
    if isinstance(model, u.Ext):
        return isinstance(got, u.Ext) and got.type == model.type and got.data is model.data
    return False


def key_eq(k, gk):
    """tuple keys come back as (deep) tuples"""
    if isinstance(k, tuple):
        return isinstance(gk, tuple) and len(gk) == len(k) and all(key_eq(a, b) for a, b in zip(k, gk))
    return val_eq(k, gk)


def to_spec(v):
    if isinstance(v, u.Ext):
        return S.SExt(v.type, v.data)
    if isinstance(v, tuple):
        return tuple(to_spec(e) for e in v)
    if isinstance(v, list):
        return [to_spec(e) for e in v]
    if isinstance(v, dict):
        return {to_spec(k): to_spec(e) for k, e in v.items()}
    return v


def roundtrip_ok(v):
    """pack with the real encoder; bytes == minimal spec encoding; real decoder and spec decoder both
    return the value and consume the whole stream."""
    try:
        items = _pack(v)
    except Exception:
        return False        # a value of the model was refused by the encoder
    sv = to_spec(v)
    if not items_eq(items, S.enc(sv)):
        return False
    r = R(items)
    try:
        got = u.unpack(r)
    except Exception:
        return False        # the encoder's own output was rejected by the decoder
    if not val_eq(v, got) or not r.at_end():
        return False
    cur = S.Cur(items)
    if not S.same(sv, S.dec(cur)) or cur.i != len(items):
        return False
    return True


def stream_len(items):
    n = 0
    for it in items:
        n = n + (it.n if isinstance(it, Blob) else 1)
    return n


def truncation_ok(v, k):
    """every proper prefix (k bytes, 0 <= k < len) is rejected as insufficient data"""
    items = _pack(v)
    try:
        _unpack(items, limit=k)
    except u.InsufficientDataException:
        return True
    except Exception:
        return False
    return False


# ------------------------------------------------------------------ integers
def int_roundtrip(x: int) -> bool:
    """
    pre: -2**63 <= x < 2**64
    post: _
    """
    PATHS[0] += 1
    return roundtrip_ok(x) and not TWIN[0]


def int_refused(x: int) -> bool:
    """
    pre: x < -2**63 or x >= 2**64
    post: _
    """
    PATHS[0] += 1
    try:
        _pack(x)
    except u.UnsupportedTypeException:
        return not TWIN[0]
    except Exception:
        return False
    return False


def _fmt(f):
    if f == 0:
        return 'pfix'
    if f == 1:
        return 'nfix'
    if f == 2:
        return 'u8'
    if f == 3:
        return 'u16'
    if f == 4:
        return 'u32'
    if f == 5:
        return 'u64'
    if f == 6:
        return 'i8'
    if f == 7:
        return 'i16'
    if f == 8:
        return 'i32'
    return 'i64'


def int_nonminimal(x: int, f: int) -> bool:
    """
    pre: 0 <= f <= 9
    pre: -2**63 <= x < 2**64
    post: _
    """
    PATHS[0] += 1
    fmt = _fmt(f)
    if not S.int_legal(x, fmt):
        return True
    got = _unpack_valid(S.enc_int_fmt(x, fmt))
    return isinstance(got, int) and got == x and not TWIN[0]


def int_truncated(x: int, k: int) -> bool:
    """
    pre: -2**63 <= x < 2**64
    pre: 0 <= k < 9
    post: _
    """
    PATHS[0] += 1
    if k >= len(S.enc_int(x)):
        return True
    return truncation_ok(x, k) and not TWIN[0]


# ------------------------------------------------------------------ lengths (payload opaque)
def bin_len(n: int) -> bool:
    """
    pre: 0 <= n < 2**32
    post: _
    """
    PATHS[0] += 1
    return roundtrip_ok(Blob(n)) and not TWIN[0]


def str_len(n: int) -> bool:
    """
    pre: 0 <= n < 2**32
    post: _
    """
    PATHS[0] += 1
    return roundtrip_ok(SStr(n)) and not TWIN[0]


def ext_len(n: int, t: int) -> bool:
    """
    pre: 0 <= n < 2**32
    pre: 0 <= t <= 127
    post: _
    """
    PATHS[0] += 1
    return roundtrip_ok(u.Ext(t, Blob(n))) and not TWIN[0]


def _counted(v, kind, n):
    """arrays/maps with the element loop cut (see DESIGN C14): header == spec header, decoded count == n"""
    items = _pack(v)
    hdr = S.hdr_array(n) if kind == 'array' else S.hdr_map(n)
    if not items_eq(items, hdr):
        return False
    saved = u.__dict__.get('range')
    FakeRange.LOG = []
    u.range = FakeRange
    try:
        got = _unpack_valid(items)
    finally:
        if saved is None:
            del u.range
        else:
            u.range = saved
    if len(FakeRange.LOG) != 1 or FakeRange.LOG[0] != n:
        return False
    if kind == 'array' and got != []:
        return False
    if kind == 'map' and got != {}:
        return False
    c = S.dec(S.Cur(items), elem_limit=-1)
    return isinstance(c, S.Counted) and c.kind == kind and c.n == n


def array_len(n: int) -> bool:
    """
    pre: 0 <= n < 2**32
    post: _
    """
    PATHS[0] += 1
    return _counted(CList(n), 'array', n) and not TWIN[0]


def map_len(n: int) -> bool:
    """
    pre: 0 <= n < 2**32
    post: _
    """
    PATHS[0] += 1
    return _counted(CDict(n), 'map', n) and not TWIN[0]


def _sel_len_value(kind, n):
    if kind == 0:
        return Blob(n)
    if kind == 1:
        return SStr(n)
    if kind == 2:
        return u.Ext(5, Blob(n))
    if kind == 3:
        return CList(n)
    return CDict(n)


def len_refused(kind: int, n: int) -> bool:
    """
    pre: 0 <= kind <= 4
    pre: n >= 2**32
    post: _
    """
    PATHS[0] += 1
    try:
        _pack(_sel_len_value(kind, n))
    except u.UnsupportedTypeException:
        return not TWIN[0]
    except Exception:
        return False
    return False


def len_truncated(kind: int, n: int, k: int) -> bool:
    """
    pre: 0 <= kind <= 2
    pre: 0 <= n < 2**32
    pre: 0 <= k < n + 6
    post: _
    """
    PATHS[0] += 1
    v = _sel_len_value(kind, n)
    if k >= stream_len(S.enc(to_spec(v))):
        return True
    return truncation_ok(v, k) and not TWIN[0]


def _width(w):
    if w == 0:
        return 0
    if w == 1:
        return 1
    if w == 2:
        return 2
    return 4


def len_nonminimal(kind: int, n: int, w: int) -> bool:
    """
    pre: 0 <= kind <= 4
    pre: 0 <= w <= 3
    pre: 0 <= n < 2**32
    post: _
    """
    PATHS[0] += 1
    width = _width(w)
    # legal widths per family (spec): str 0,1,2,4; bin 1,2,4; ext 0(fix),1,2,4; array/map 0,2,4
    if kind == 0 and width == 0:
        return True
    if kind >= 3 and width == 1:
        return True
    if width == 0:
        if kind == 1 and n > 31:
            return True
        if kind == 2 and not (n == 1 or n == 2 or n == 4 or n == 8 or n == 16):
            return True
        if kind >= 3 and n > 15:
            return True
    elif n >= 2 ** (8 * width):
        return True
    if kind == 0:
        b = Blob(n)
        return _unpack_valid(S.hdr_bin(n, width) + [b]) is b and not TWIN[0]
    if kind == 1:
        s = SStr(n)
        return _unpack_valid(S.hdr_str(n, width) + [s.blob]) is s and not TWIN[0]
    if kind == 2:
        b = Blob(n)
        got = _unpack_valid(S.hdr_ext(n, 7, width) + [b])
        return isinstance(got, u.Ext) and got.type == 7 and got.data is b and not TWIN[0]
    hdr = S.hdr_array(n, width) if kind == 3 else S.hdr_map(n, width)
    saved = u.__dict__.get('range')
    FakeRange.LOG = []
    u.range = FakeRange
    try:
        got = _unpack_valid(hdr)
    finally:
        if saved is None:
            del u.range
        else:
            u.range = saved
    return len(FakeRange.LOG) == 1 and FakeRange.LOG[0] == n and got == ([] if kind == 3 else {}) and not TWIN[0]


# ------------------------------------------------------------------ all 256 first bytes (differential vs spec)
def first_byte(b0: int, h1: int, h2: int, h3: int, h4: int, h5: int, h6: int, h7: int, h8: int, m: int) -> bool:
    """
    pre: 0 <= b0 <= 255
    pre: 0 <= h1 <= 255 and 0 <= h2 <= 255 and 0 <= h3 <= 255 and 0 <= h4 <= 255
    pre: 0 <= h5 <= 255 and 0 <= h6 <= 255 and 0 <= h7 <= 255 and 0 <= h8 <= 255
    pre: 0 <= m < 2**32
    post: _
    """
    PATHS[0] += 1
    hs = [h1, h2, h3, h4, h5, h6, h7, h8]
    # number of header bytes after b0 that precede a payload, from the specification's format table
    if 0xa0 <= b0 <= 0xbf:
        nh = 0
    elif b0 == 0xc4 or b0 == 0xd9:
        nh = 1
    elif b0 == 0xc5 or b0 == 0xda:
        nh = 2
    elif b0 == 0xc6 or b0 == 0xdb:
        nh = 4
    elif b0 == 0xc7:
        nh = 2
    elif b0 == 0xc8:
        nh = 3
    elif b0 == 0xc9:
        nh = 5
    elif 0xd4 <= b0 <= 0xd8:
        nh = 1
    else:
        nh = -1
    blob = Blob(m, 'fb')
    blob.text = SStr(0) if False else None
    if nh >= 0:
        items = [b0] + hs[:nh] + [blob]
    else:
        items = [b0] + hs
    is_str = (0xa0 <= b0 <= 0xbf) or (0xd9 <= b0 <= 0xdb)
    if is_str:
        blob.text = 'TXT'
    # spec side
    try:
        sv = S.dec(S.Cur(items), elem_limit=-1)
        sk = 'val'
        if isinstance(sv, S.SExt) and sv.type > 127:
            return True     # reserved (negative) ext types are outside the value model (application types 0..127)
    except S.SpecInsufficient:
        sk, sv = 'insufficient', None
    except S.SpecReserved:
        sk, sv = 'reserved', None
    except ValueError:
        return True     # payload longer than the decoded length: stream shape not meaningful
    # real side
    saved = u.__dict__.get('range')
    FakeRange.LOG = []
    u.range = FakeRange
    try:
        rv = _unpack(items)
        rk = 'val'
    except u.InsufficientDataException:
        rk, rv = 'insufficient', None
    except u.ReservedCodeException:
        rk, rv = 'reserved', None
    finally:
        if saved is None:
            del u.range
        else:
            u.range = saved
    if TWIN[0]:
        return False
    if rk != sk:
        return False
    if rk != 'val':
        return True
    if isinstance(sv, S.Counted):
        return len(FakeRange.LOG) == 1 and FakeRange.LOG[0] == sv.n and rv == ([] if sv.kind == 'array' else {})
    if isinstance(sv, tuple) and sv[0] == 'str':
        return rv == 'TXT' and sv[1] is blob
    if isinstance(sv, tuple) and sv[0] == 'f32':
        return isinstance(rv, Dbl) and rv.bits == sv[1]
    if isinstance(sv, S.SExt):
        return isinstance(rv, u.Ext) and rv.type == sv.type and rv.data is sv.data
    if isinstance(sv, Dbl):
        return isinstance(rv, Dbl) and rv.bits == sv.bits
    if isinstance(sv, Blob):
        return rv is sv
    if sv is None or sv is True or sv is False:
        return rv is sv
    return isinstance(rv, int) and not isinstance(rv, bool) and rv == sv


# ------------------------------------------------------------------ scalars and composites (unrolled)
def dbl_roundtrip(bits: int, k: int) -> bool:
    """
    pre: 0 <= bits < 2**64
    pre: 0 <= k < 9
    post: _
    """
    PATHS[0] += 1
    return roundtrip_ok(Dbl(bits)) and truncation_ok(Dbl(bits), k) and not TWIN[0]


def _leaf(sel, x, n):
    if sel == 0:
        return x
    if sel == 1:
        return Blob(n)
    if sel == 2:
        return SStr(n)
    if sel == 3:
        return None
    if sel == 4:
        return True
    if sel == 5:
        return Dbl(x * 2 ** 40 + 7)
    return u.Ext(3, Blob(n))


def array_elems(cnt: int, s0: int, s1: int, s2: int, x0: int, x1: int, x2: int, n0: int, n1: int, n2: int) -> bool:
    """
    pre: 0 <= cnt <= 3
    pre: 0 <= s0 <= 6 and 0 <= s1 <= 6 and 0 <= s2 <= 6
    pre: 256 <= x0 < 65536 and 256 <= x1 < 65536 and 256 <= x2 < 65536
    pre: 32 <= n0 < 2**32 and 32 <= n1 < 2**32 and 32 <= n2 < 2**32
    post: _
    """
    PATHS[0] += 1
    v = [_leaf(s0, x0, n0), _leaf(s1, x1, n1), _leaf(s2, x2, n2)][:cnt]
    return roundtrip_ok(v) and not TWIN[0]


def array_trunc(cnt: int, s0: int, s1: int, x0: int, x1: int, n0: int, n1: int, k: int) -> bool:
    """
    pre: 1 <= cnt <= 2
    pre: 0 <= s0 <= 6 and 0 <= s1 <= 6
    pre: 256 <= x0 < 65536 and 256 <= x1 < 65536
    pre: 32 <= n0 < 2**32 and 32 <= n1 < 2**32
    pre: k >= 0
    post: _
    """
    PATHS[0] += 1
    v = [_leaf(s0, x0, n0), _leaf(s1, x1, n1)][:cnt]
    if k >= stream_len(S.enc(to_spec(v))):
        return True
    return truncation_ok(v, k) and not TWIN[0]


def _key(sel, x, n):
    if sel == 0:
        return x
    if sel == 1:
        return SStr(n)
    if sel == 2:
        return Blob(n)
    return (x, None)        # tuple key: packed as array, decoded back to a tuple


def map_elems(cnt: int, ks0: int, ks1: int, s0: int, s1: int, kx0: int, kx1: int, x0: int, x1: int, n0: int, n1: int) -> bool:
    """
    pre: 0 <= cnt <= 2
    pre: 0 <= ks0 <= 3 and 0 <= ks1 <= 3
    pre: 0 <= s0 <= 6 and 0 <= s1 <= 6
    pre: 256 <= kx0 <= 258 and 256 <= kx1 <= 258
    pre: 256 <= x0 < 65536 and 256 <= x1 < 65536
    pre: 32 <= n0 < 2**32 and 32 <= n1 < 2**32
    post: _
    """
    PATHS[0] += 1
    v = {}
    if cnt >= 1:
        v[_key(ks0, kx0, n0)] = _leaf(s0, x0, n0)
    if cnt >= 2:
        k1 = _key(ks1, kx1, n1)
        if k1 in v:
            return True     # duplicate key: one-entry map, covered by cnt == 1
        v[k1] = _leaf(s1, x1, n1)
    return roundtrip_ok(v) and not TWIN[0]


def map_trunc(ks0: int, s0: int, kx0: int, x0: int, n0: int, k: int) -> bool:
    """
    pre: 0 <= ks0 <= 3
    pre: 0 <= s0 <= 6
    pre: 256 <= kx0 <= 258 and 256 <= x0 < 65536
    pre: 32 <= n0 < 2**32
    pre: k >= 0
    post: _
    """
    PATHS[0] += 1
    v = {_key(ks0, kx0, n0): _leaf(s0, x0, n0)}
    if k >= stream_len(S.enc(to_spec(v))):
        return True
    return truncation_ok(v, k) and not TWIN[0]


def nested(shape: int, x: int, y: int, n: int) -> bool:
    """
    pre: 0 <= shape <= 5
    pre: 256 <= x <= 258 and 2**32 <= y < 2**64
    pre: 32 <= n < 2**32
    post: _
    """
    PATHS[0] += 1
    if shape == 0:
        v = [[x], [y, Blob(n)]]
    elif shape == 1:
        v = {x: [y, SStr(n)]}
    elif shape == 2:
        v = [{x: y}, {}]
    elif shape == 3:
        v = {SStr(n): {x: [y]}}
    elif shape == 4:
        v = [[[x]], (y, None)]
    else:
        v = {(x, (x + 1,)): [y, u.Ext(3, Blob(n))]}
    return roundtrip_ok(v) and not TWIN[0]


def nested_trunc(shape: int, x: int, y: int, n: int, k: int) -> bool:
    """
    pre: 0 <= shape <= 2
    pre: 256 <= x <= 258 and 2**32 <= y < 2**64
    pre: 32 <= n < 2**32
    pre: k >= 0
    post: _
    """
    PATHS[0] += 1
    if shape == 0:
        v = [[x], [y, Blob(n)]]
    elif shape == 1:
        v = {x: [y, SStr(n)]}
    else:
        v = {(x, (x + 1,)): [y, u.Ext(3, Blob(n))]}
    if k >= stream_len(S.enc(to_spec(v))):
        return True
    return truncation_ok(v, k) and not TWIN[0]


def compat_mode(kind: int, n: int) -> bool:
    """
    pre: 0 <= kind <= 1
    pre: 0 <= n < 2**32
    post: _
    """
    PATHS[0] += 1
    # compatibility = True: str and bytes both travel in the old raw family (fixraw/raw16/raw32) and
    # come back as bytes; header must be the smallest raw header
    u.compatibility = True
    try:
        v = Blob(n) if kind == 0 else SStr(n)
        payload = v if kind == 0 else v.blob
        items = _pack(v)
        hdr = S.hdr_str(n, 0 if n <= 31 else 2 if n < 2 ** 16 else 4)
        if not items_eq(items, hdr + [payload]):
            return False
        got = _unpack_valid(items)
    finally:
        u.compatibility = False
    return got is payload and not TWIN[0]
