"""C13 companion at the public API: definitions that live in ANOTHER project module.  The edited file is laid
out in every way the family allows (k blank/comment lines before the read, a statement joined in front of it with
';', the read inside a broken bracket); go-to-definition on the read must give the same answer in every layout --
the binding position in the other file, which does not move.  Solver-enumerated (E)."""
import ast
import os

from supp.assistant import location, assist
from supp.linter import lint
from supp.project import Project

PATHS = [0]
TWIN = [False]
ROOT = os.environ.get('VERIF_C13_ROOT', '')
LIB = {
    'c13lib.py': 'alpha = 1\nif alpha: beta = 2\nclass K: gamma = 3\ndef fn(): pass\nx = 1; delta = 4\n'
                 '(a, (b, target)) = 1, (2, 3)\n\n\nomega = [\n    0]\n',
}
NAMES = ('alpha', 'beta', 'fn', 'delta', 'target', 'omega', 'K')
FORMS = ('from', 'attr', 'star', 'alias')


def materialise(path):
    os.makedirs(path, exist_ok=True)
    for rel, text in LIB.items():
        with open(os.path.join(path, rel), 'w') as f:
            f.write(text)


def lib_positions():
    pos = {}
    tree = ast.parse(LIB['c13lib.py'])
    for n in ast.walk(tree):
        if isinstance(n, ast.Name) and isinstance(n.ctx, ast.Store):
            pos[n.id] = (n.lineno, n.col_offset)
        elif isinstance(n, ast.FunctionDef):
            pos[n.name] = (n.lineno, n.col_offset + 4)
        elif isinstance(n, ast.ClassDef):
            pos[n.name] = (n.lineno, n.col_offset + 6)
    return pos


def build(name, form, k, pad, brk):
    """-> text, cursor.  k: blank/comment lines between import and read; pad: 0 none, 1 'q = 1; ' joined in
    front, 2 two statements joined in front; brk: the read sits on a continuation line of a broken bracket"""
    ident = NAMES[name]
    f = FORMS[form]
    head = {'from': 'from c13lib import ' + ident, 'attr': 'import c13lib', 'star': 'from c13lib import *',
            'alias': 'import c13lib as lb'}[f]
    expr = {'from': ident, 'attr': 'c13lib.' + ident, 'star': ident, 'alias': 'lb.' + ident}[f]
    lines = [head]
    for i in range(k):
        lines.append('# c' if i % 2 else '')
    front = ['', 'q = 1; ', 'q = 1;  r = 2; '][pad]
    if brk:
        lines.append(front + 'print(')
        lines.append('   ' + expr + ')')
        cur = (len(lines), 3 + len(expr))
    else:
        lines.append(front + 'print(' + expr + ')')
        cur = (len(lines), len(front) + 6 + len(expr))
    return '\n'.join(lines) + '\n', cur


def problems(name, form, k, pad, brk):
    text, cur = build(name, form, k, pad, brk)
    fname = os.path.join(ROOT, 'main13.py')
    libf = os.path.join(ROOT, 'c13lib.py')
    want = lib_positions()[NAMES[name]]
    p = Project([ROOT])
    res = location(p, text, cur, fname)
    flat = []
    for x in res:
        flat.extend(x if isinstance(x, list) else [x])
    # the definition chain ends at the binding in the other file, whatever the layout of this one
    last = flat[-1] if flat else None
    bad = []
    if not last or last['file'] != libf or tuple(last['loc']) != want:
        bad.append('definition of %s: binding in c13lib.py at %r; in this layout supp answers %r'
                   % (NAMES[name], want, [(os.path.basename(x['file'] or ''), x['loc']) for x in flat]))
    diag = [(r[0], r[1]) for r in lint(p, text, fname)]
    ref, _ = build(name, form, 9, 0, 0)
    diag0 = [(r[0], r[1]) for r in lint(Project([ROOT]), ref, fname)]
    if [d for d in diag if 'q' != d[1][-1:] and d[1][-1:] != 'r'] != diag0:
        bad.append('diagnostics differ from the reference layout: %r vs %r' % (diag, diag0))
    return bad


def _c(v, lo, hi):
    for j in range(lo, hi + 1):
        if v == j:
            return j
    return lo


def check(name: int, form: int, k: int, pad: int, brk: int) -> bool:
    """
    pre: 0 <= name <= 6 and 0 <= form <= 3 and 0 <= k <= 9 and 0 <= pad <= 2 and 0 <= brk <= 1
    post: _
    """
    PATHS[0] += 1
    from crosshair.tracers import NoTracing
    name, form, k, pad, brk = _c(name, 0, 6), _c(form, 0, 3), _c(k, 0, 9), _c(pad, 0, 2), _c(brk, 0, 1)
    with NoTracing():
        if TWIN[0]:
            return False
        return not problems(name, form, k, pad, brk)
