"""C10 unused-name diagnostics.  A module is assembled from (scope kind, binding kind, identifier shape, read?)
-- solver-enumerated (E) -- and the W01/W02 entries of the real lint() are compared with the rule stated in
the property, evaluated on the construction.  (S) companion: the identifier of the unused binding is a symbolic
string for the binding kinds whose position does not come from a text search."""
import ast

from supp.linter import lint
from supp.project import Project

PATHS = [0]
TWIN = [False]

# binding kinds: (id, template lines, kind class).  @ marks the bound identifier, $ a fresh helper name.
# kind class: 'local' (ordinary binding), 'param', 'import' (module import), 'future', 'star', 'dotted'
KINDS = [
    ('assign', ['@ = 1'], 'local'),
    ('annassign', ['@: int = 1'], 'local'),
    ('tuple', ['@, h1 = 1, 2', 'print(h1)'], 'local'),
    ('star', ['h1, *@ = [1, 2]', 'print(h1)'], 'local'),
    ('walrus', ['print((@ := 1) + 1)' if False else 'if (@ := 1): pass'], 'local'),
    ('for', ['for @ in []: pass'], 'local'),
    ('with', ['with open("f") as @: pass'], 'local'),
    ('except', ['try:', '    pass', 'except Exception as @:', '    pass'], 'local'),
    ('comp', ['print([0 for @ in []])'], 'local'),
    ('def', ['def @(): pass'], 'local'),
    ('class', ['class @: pass'], 'local'),
    ('import', ['import @'], 'import'),
    ('importas', ['import os as @'], 'import'),
    ('from', ['from os import @'], 'import'),
    ('fromas', ['from os import path as @'], 'import'),
    ('dotted', ['import @.path'], 'dotted'),
    ('future', ['from __future__ import @'], 'future'),
    ('starimp', ['from os.path import *'], 'star'),
    ('dflt_lambda', ['def h1(k=lambda @: 0): return k', 'print(h1)'], 'lamparam'),
    ('dflt_comp', ['def h1(k=[0 for @ in []]): return k', 'print(h1)'], 'local'),
    ('global_assign', ['global @', '@ = 1'], 'global'),
    ('if_else', ['if print:', '    @ = 1', 'else:', '    @ = 2'], 'local'),
    ('if_only', ['@ = 0', 'if print:', '    @ = 1'], 'local'),
    ('import_try', ['try:', '    import @', 'except ImportError:', '    import @'], 'import'),
    ('param', None, 'param'),
    ('kwonly', None, 'param'),
    ('vararg', None, 'param'),
]
SCOPES = ('module', 'class', 'function', 'method', 'lambda', 'nested')
NAMES = ('zq', '_zq', 'print_function')     # plain, underscore, (for __future__)


def build(scope, kind, name, read, dotted_use, loc=0):
    """-> (text, expected list of (code, message, line, col)) or None if the combination does not exist"""
    kid, tmpl, kclass = KINDS[kind]
    sc = SCOPES[scope]
    ident = NAMES[name]
    if kclass == 'future' and (sc != 'module' or name != 2):
        return None
    if kclass != 'future' and name == 2:
        return None
    if kclass == 'star' and sc not in ('module',):
        return None
    if kid == 'dotted':
        ident = 'os' if name == 0 else None
        if ident is None:
            return None
    if kid in ('import', 'import_try') and name == 0:
        ident = 'sys'
    if kid in ('import', 'import_try') and name == 1:
        ident = '_thread'
    if kid == 'from':
        ident = 'sep' if name == 0 else '_exit'
    if sc == 'lambda' and kclass != 'param' and kid != 'walrus':
        return None
    if kclass == 'global' and sc not in ('function', 'method', 'nested'):
        return None
    if kclass == 'lamparam' and read:
        return None
    if kclass == 'param' and sc in ('module', 'class'):
        return None
    lines = []
    ind = ''
    if kclass == 'future':
        lines.append('from __future__ import print_function')
    if sc == 'class':
        lines.append('class K:')
        ind = '    '
    elif sc == 'function':
        ind = '    '
    elif sc == 'method':
        lines.append('class K:')
        ind = '        '
    elif sc == 'nested':
        lines.append('def outer():')
        ind = '        '
    # header of function-like scopes (params live here)
    params = 'self' if sc == 'method' else 'p0'
    body = []
    if kclass == 'param':
        p = {'param': '@', 'kwonly': '*, @', 'vararg': '*@'}[kid]
        params = params + ', ' + p
    else:
        if kclass != 'future':
            body = list(tmpl)
    use = []
    if read and kclass not in ('star',):
        use = ['print(%s)' % ident]
    if dotted_use:
        return None     # (kept in the signature; an identifier read through a dotted use is simply "read")
    if sc == 'lambda':
        if kclass == 'param':
            expr = 'lambda %s: (p0, %s)' % (params, ident if read else '0')
        else:
            expr = 'lambda p0: (p0, (%s := 1), %s)' % ('@', ident if read else '0')
        lines.append('h0 = ' + expr)
        pre_len = None
    else:
        if sc in ('function', 'method', 'nested'):
            hdr = {'function': 'def f(%s):', 'method': '    def m(%s):', 'nested': '    def inner(%s):'}[sc] % params
            lines.append(hdr)
            first = 'self' if sc == 'method' else 'p0'
            body = body + ['print(%s)' % first]
        if loc == 2:
            # a nested function (a method in a class body) of the binding's scope that calls locals()
            if sc == 'class':
                use = use + ['def lz(self): return (self, locals())']
            else:
                use = use + ['def lz(): return locals()', 'print(lz)']
        for b in body + use:
            lines.append(ind + b)
        if sc == 'nested':
            lines.append('    inner(1)')
    if loc == 1:
        # an unrelated function at the end of the module that calls locals()
        lines += ['def lz(p9):', '    return (p9, locals())']
    if loc and sc == 'lambda':
        return None
    text = '\n'.join(lines) + '\n'
    # locate the binding identifier(s); the offset of a later '@' on the same line does not occur
    pos = None
    allpos = []
    for i, ln in enumerate(text.split('\n')):
        j = ln.find('@')
        if j >= 0:
            pos = (i + 1, j)
            allpos.append(pos)
    text = text.replace('@', ident)
    if kid == 'dotted':
        # 'import os.path' binds os at the position of 'os'
        pass
    if kid == 'except' and pos is not None:
        # reported at the 'except' keyword of the clause
        ln = text.split('\n')[pos[0] - 1]
        pos = (pos[0], ln.find('except'))
    if kclass == 'future':
        pos = (1, 23)
    if kclass == 'star':
        return text, []
    # ---- the rule of the property
    never_read = not read
    expected = []
    under = ident.startswith('_')
    in_func = sc in ('function', 'method', 'lambda', 'nested')
    if kclass == 'lamparam':
        in_func = True      # the binding is a parameter of a lambda wherever the lambda is written
        if sc == 'class':
            never_read = False      # a lambda written directly in a class body counts as a method: parameters exempt
    if kclass == 'global':
        never_read = False  # not a local of the function: nothing to report
    if len(allpos) < 2 or kid in ('tuple', 'star', 'except', 'global_assign'):
        allpos = [pos]
    if never_read and not under:
        for pos in allpos:
            if in_func:
                if not (kclass == 'param' and sc == 'method'):
                    expected.append(('W01', 'Unused name: ' + ident, pos[0], pos[1]))
            elif kclass in ('import', 'dotted'):
                expected.append(('W02', 'Unused import: ' + ident, pos[0], pos[1]))
    return text, expected


def problems(scope, kind, name, read, dotted_use, loc=0):
    b = build(scope, kind, name, read, dotted_use, loc)
    if b is None:
        return []
    text, expected = b
    try:
        compile(text, 'f.py', 'exec')
    except SyntaxError:
        return []
    res = lint(Project(['/nonexistent-root']), text, 'f.py')
    got = sorted(r[:4] for r in res if r[0] in ('W01', 'W02'))
    # helper names of the construction are all read; anything else reported is a problem
    if got != sorted(expected):
        return ['lint reports %r, the rule gives %r for\n%s' % (got, sorted(expected), text)]
    return []


def _c(v, lo, hi):
    for j in range(lo, hi + 1):
        if v == j:
            return j
    return lo


def check(scope: int, kind: int, name: int, read: bool, dotted_use: bool, loc: int = 0) -> bool:
    """
    pre: 0 <= scope <= 5 and 0 <= kind <= 26 and 0 <= name <= 2 and 0 <= loc <= 2
    post: _
    """
    PATHS[0] += 1
    from crosshair.tracers import NoTracing
    s, k, n, loc = _c(scope, 0, 5), _c(kind, 0, 26), _c(name, 0, 2), _c(loc, 0, 2)
    r = True if read else False
    d = True if dotted_use else False
    with NoTracing():
        if TWIN[0]:
            return False
        return not problems(s, k, n, r, d, loc)
