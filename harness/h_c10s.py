"""C10 (S) companion: the identifier of the (possibly unused) binding is a *symbolic string*; the whole of the
real lint() runs on a template tree (supp.util.parse rebound to return it) with supp's containers rewritten to
equality-only ones, so the underscore rule, the message text and the used/unused bookkeeping see a symbolic
name.  One path per distinction lint actually makes about the name (starts with '_' or not, equals another
identifier of the module or not)."""
import ast

from vlib import symcont
symcont.install()
import supp.util
import supp.scope
import supp.name
import supp.linter
from supp.linter import lint
from supp.project import Project
from vlib.tharness import SUndef, BKEY

supp.scope.UndefinedName = SUndef
supp.name.UndefinedName = SUndef
supp.scope.builtin_scope.__dict__['names'] = symcont.SymDict(
    [('print', supp.name.RuntimeName('print', print, True)), ('open', supp.name.RuntimeName('open', open, True))])

PATHS = [0]
TWIN = [False]

# (text with placeholder vQ for the binding and its optional read, expected code or None, binding is a method parameter)
CASES = [
    ('def f(p):\n    vQ = p\n    return p\n', 'W01'),
    ('def f(p):\n    vQ = p\n    return vQ\n', None),
    ('def f(p, vQ):\n    return p\n', 'W01'),
    ('class K:\n    def m(self, vQ):\n        return self\n', None),
    ('def f(p):\n    for vQ in p:\n        pass\n    return p\n', 'W01'),
    ('def f(p):\n    with p as vQ:\n        pass\n    return p\n', 'W01'),
    ('def f(p):\n    return lambda vQ: p\n', 'W01'),
    ('vQ = 1\nprint(1)\n', None),
    ('class K:\n    vQ = 1\n', None),
    ('def f(p):\n    if p:\n        vQ = 1\n    else:\n        vQ = 2\n    return p\n', 'W01W01'),
]
TREES = [None] * len(CASES)


def tree_for(i, name):
    text = CASES[i][0]
    tree = ast.parse(text)
    pos = []
    for n in ast.walk(tree):
        if isinstance(n, ast.Name) and n.id == 'vQ':
            n.id = name
            if isinstance(n.ctx, ast.Store):
                pos.append((n.lineno, n.col_offset))
        elif isinstance(n, ast.arg) and n.arg == 'vQ':
            n.arg = name
            pos.append((n.lineno, n.col_offset))
    return text, tree, sorted(pos)


def run_case(i, name):
    text, tree, pos = tree_for(i, name)
    old = supp.util.parse
    supp.util.parse = lambda src, fn: tree
    try:
        res = lint(Project(['/nonexistent-root']), text, 'f.py')
    finally:
        supp.util.parse = old
    got = [r[:4] for r in res if r[0] in ('W01', 'W02')]
    exp_code = CASES[i][1]
    expected = []
    if exp_code and not name.startswith('_'):
        for p in pos:
            expected.append(('W01', 'Unused name: ' + name, p[0], p[1]))
    if len(got) != len(expected):
        return False
    for g in got:
        found = False
        for e in expected:
            if g[0] == e[0] and g[1] == e[1] and g[2] == e[2] and g[3] == e[3]:
                found = True
        if not found:
            return False
    return True


def check(case: int, name: str) -> bool:
    """
    pre: 0 <= case < 10
    pre: len(name) == 2
    pre: name != 'p' and name != 'f' and name != 'K' and name != 'm'
    post: _
    """
    PATHS[0] += 1
    c = 0
    for j in range(len(CASES)):
        if case == j:
            c = j
    ok = run_case(c, name)
    if TWIN[0]:
        return False
    return ok
