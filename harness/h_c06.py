"""C06 attribute completion / go-to-definition follow Python's lookup order.
Solver-enumerated (E): hierarchy shape, member kinds and names (2-name alphabet, so overrides appear), import
form and the queried attribute are solver variables compared against finite domains; each path runs the real
assist()/location() on a generated project (in-memory files) and the oracle executes the same classes under
CPython (__mro__, vars())."""
import io

import supp.project as sp
import supp.module as sm
from supp.project import Project
from supp.assistant import assist, location

PATHS = [0]
TWIN = [False]
REAL_OS = sp.os
FS = {}
NAMES = ('aa', 'bb')
KINDS = ('method', 'classvar', 'self_init', 'self_other', 'property')
# hierarchies: list of base lists (indices of earlier classes; -1 = object, -2 = dict)
HIER = [
    [[-1]],
    [[-1], [0]],
    [[-1], [0], [1]],
    [[-1], [-1], [0, 1]],
    [[-1], [0], [-1], [1, 2]],
    [[-2], [0]],
    [[-1], [0], [1], [2]],
    [[-1], [0, -2]],
    [[-1], [-2, 0], [1]],
]
CN = ('Ka', 'Kb', 'Kc', 'Kd')
FORMS = ('same', 'from', 'attr', 'star')


class FakePath(object):
    exists = staticmethod(lambda p: p in FS)
    isdir = staticmethod(lambda p: False)
    join = staticmethod(REAL_OS.path.join)
    dirname = staticmethod(REAL_OS.path.dirname)
    basename = staticmethod(REAL_OS.path.basename)


class FakeOS(object):
    path = FakePath

    @staticmethod
    def listdir(d):
        raise OSError(d)


from vlib import fakeos
fakeos.complete(FakeOS, FakePath)


class patched(object):
    def __enter__(self):
        self.old = (sm.getmtime, sm.__dict__.get('open'), Project.get_path)
        sp.os = FakeOS
        sm.getmtime = lambda p: 1
        sm.open = lambda p, *a: io.StringIO(FS[p])
        Project.get_path = lambda s: list(s.sources)

    def __exit__(self, *a):
        sp.os = REAL_OS
        sm.getmtime = self.old[0]
        if self.old[1] is None:
            del sm.open
        else:
            sm.open = self.old[1]
        Project.get_path = self.old[2]
        return False


def class_text(ci, bases, members, base_expr):
    """-> (lines, positions {member index: (line offset within class text, col)})"""
    bs = ', '.join(base_expr(b) for b in bases)
    lines = ['class %s(%s):' % (CN[ci], bs)]
    pos = {}
    inits = [(mi, n) for mi, (k, n) in enumerate(members) if k == 'self_init']
    for mi, (k, n) in enumerate(members):
        if k == 'method':
            pos[mi] = (len(lines), 8)
            lines += ['    def %s(self):' % n, '        return 1']
        elif k == 'classvar':
            pos[mi] = (len(lines), 4)
            lines += ['    %s = 1' % n]
        elif k == 'property':
            lines += ['    @property']
            pos[mi] = (len(lines), 8)
            lines += ['    def %s(self):' % n, '        return 1']
        elif k == 'self_other':
            lines += ['    def set_%d(self):' % mi]
            pos[mi] = (len(lines), 8)
            lines += ['        self.%s = 2' % n]
        elif k == 'self_ann':
            # a bare annotation: no attribute is created at run time
            lines += ['    def ann_%d(self):' % mi, '        self.%s: int' % n]
    if inits:
        lines += ['    def __init__(self):']
        for mi, n in inits:
            pos[mi] = (len(lines), 8)
            lines += ['        self.%s = 3' % n]
    if len(lines) == 1:
        lines += ['    pass']
    return lines, pos


def build(h, members, form, attr, via):
    """members: per class a list of (kind, name).  form: how the first class is reached by the others.
    via: 'instance' (obj = K(); obj.attr) or 'class' (K.attr) or 'self' (self.attr inside a method of the last class)
    -> files {path: text}, main path, cursor for `x.|attr`, positions {(class, member): (file, line, col)}"""
    hier = HIER[h]
    n = len(hier)
    split = form != 'same'
    files = {}
    where = {}

    def base_expr_main(b):
        if b == -1:
            return 'object'
        if b == -2:
            return 'dict'
        if split and b == 0 and form == 'attr':
            return 'lib.' + CN[0]
        return CN[b]
    main = []
    if split:
        lines0, pos0 = class_text(0, hier[0], members[0], lambda b: 'object' if b == -1 else 'dict')
        files['/r/lib.py'] = '\n'.join(lines0) + '\n'
        for mi, (l, c) in pos0.items():
            where[(0, mi)] = ('/r/lib.py', l + 1, c)
        main.append({'from': 'from lib import ' + CN[0], 'attr': 'import lib', 'star': 'from lib import *'}[form])
    for ci in range(1 if split else 0, n):
        lines, pos = class_text(ci, hier[ci], members[ci], base_expr_main)
        for mi, (l, c) in pos.items():
            where[(ci, mi)] = ('/r/main.py', len(main) + l + 1, c)
        main += lines
    last = CN[n - 1]
    if split and n - 1 == 0:
        last = 'lib.' + last if form == 'attr' else last
    a = NAMES[attr]
    if via == 'instance':
        main.append('obj = %s()' % last)
        main.append('obj.' + a)
        cur = (len(main), 4)
    elif via == 'class':
        main.append('%s.%s' % (last, a))
        cur = (len(main), len(last) + 1)
    else:
        main.append('class Probe(%s):' % last)
        main.append('    def probe(self):')
        main.append('        self.' + a)
        cur = (len(main), 13)
    files['/r/main.py'] = '\n'.join(main) + '\n'
    return files, '/r/main.py', cur, where


def oracle(h, members, attr, via):
    """execute the classes under CPython: MRO and which class defines what"""
    files, mainp, cur, where = build(h, members, 'same', attr, via)
    ns = {}
    trailer = {'instance': 2, 'class': 1, 'self': 3}[via]
    text = '\n'.join(files[mainp].split('\n')[:-(trailer + 1)]) + '\n'     # the classes only
    exec(compile(text, 'oracle.py', 'exec'), ns)
    hier = HIER[h]
    cls = ns[CN[len(hier) - 1]]
    mro = [c for c in cls.__mro__ if c.__name__ in CN]
    order = [CN.index(c.__name__) for c in mro]
    a = NAMES[attr]
    # source-defined attributes of the object: class-body names along the MRO + self-assigned names in any method
    class_attrs = set()
    inst_attrs = set()
    for ci in order:
        for mi, (k, n) in enumerate(members[ci]):
            if k == 'self_ann':
                continue
            if k in ('self_init', 'self_other'):
                inst_attrs.add(n)
            else:
                class_attrs.add(n)
                assert n in vars(mro[order.index(ci)]), (n, ci)
    inst_sites = [(ci, mi) for ci in order for mi, (k, n) in enumerate(members[ci])
                  if n == a and k in ('self_init', 'self_other')]
    class_site = None
    for ci in order:
        hit = [mi for mi, (k, n) in enumerate(members[ci]) if n == a and k not in ('self_init', 'self_other', 'self_ann')]
        if hit:
            # the class body binds the name once per statement; the last statement wins in vars()
            class_site = (ci, hit[-1])
            break
    return order, class_attrs, inst_attrs, inst_sites, class_site


def problems(h, members, form, attr, via):
    files, mainp, cur, where = build(h, members, form, attr, via)
    order, class_attrs, inst_attrs, inst_sites, class_site = oracle(h, members, attr, via)
    FS.clear()
    FS.update(files)
    text = files[mainp]
    bad = []
    a = NAMES[attr]
    with patched():
        prefix, props = assist(Project(['/r']), text, cur, mainp)
        loc = location(Project(['/r']), text, (cur[0], cur[1] + 1), mainp)
    bad = judge(props, loc, order, class_attrs, inst_attrs, inst_sites, class_site, where, a, via, '')
    if form != 'same':
        # the same two requests on a long-lived project (as the server keeps one) that has already answered a
        # request through the other access path: the class objects of lib.py are shared between the requests
        other = 'class' if via != 'class' else 'instance'
        wfiles, _, wcur, _ = build(h, members, form, attr, other)
        with patched():
            p = Project(['/r'])
            assist(p, wfiles[mainp], wcur, mainp)
            location(p, wfiles[mainp], (wcur[0], wcur[1] + 1), mainp)
            prefix, props = assist(p, text, cur, mainp)
            loc = location(p, text, (cur[0], cur[1] + 1), mainp)
        bad += judge(props, loc, order, class_attrs, inst_attrs, inst_sites, class_site, where, a, via,
                     ' (after a request through the %s on the same project)' % other)
    return bad


def judge(props, loc, order, class_attrs, inst_attrs, inst_sites, class_site, where, a, via, note):
    bad = []
    want = set(class_attrs)
    if via != 'class':
        want |= inst_attrs
    missing = sorted(want - set(props))
    if missing:
        bad.append('attribute proposals lack %r (source-defined along the MRO %r)%s' % (missing, [CN[c] for c in order], note))
    flat = []
    for x in loc:
        flat.extend(x if isinstance(x, list) else [x])
    got = set((x['file'], x['loc'][0], x['loc'][1]) for x in flat)
    if via != 'class' and inst_sites:
        exp = set(where[s] for s in inst_sites)
        if not got or not got <= exp:
            bad.append('definition of .%s: expected the instance assignment(s) %r, got %r%s' % (a, sorted(exp), sorted(got), note))
    elif class_site is not None:
        exp = {where[class_site]}
        if got != exp:
            bad.append('definition of .%s: Python finds it in class %s at %r, supp answers %r%s'
                       % (a, CN[class_site[0]], sorted(exp), sorted(got), note))
    return bad


# ---- descriptor-decorated methods: obj.attr is what the method returns (property, a descriptor class with its own
# __get__, descriptor classes that inherit __get__ over 1..2 levels, the base descriptor in another module)
DESCR = ['class Da(object):', '    def __init__(self, f):', '        self.f = f', '    def __get__(self, obj, cls):',
         '        return self.f(obj)']
DKINDS = ('property', 'own', 'inherit1', 'inherit2', 'inherit_lib')


def chain_build(dk, depth, form, via):
    kind = DKINDS[dk]
    lib = []
    main = []
    eng = ['class Eng(object):', '    zz = 1']
    deco = {'property': 'property', 'own': 'Da', 'inherit1': 'Db', 'inherit2': 'Dc', 'inherit_lib': 'Db'}[kind]
    dcls = []
    if kind != 'property':
        dcls += DESCR
    if kind in ('inherit1', 'inherit2', 'inherit_lib'):
        dcls += ['class Db(Da):', '    pass']
    if kind == 'inherit2':
        dcls += ['class Dc(Db):', '    pass']
    ka = ['class Ka(object):', '    @' + deco, '    def aa(self):', '        return Eng()']
    if kind == 'inherit_lib':
        # the base descriptor lives in lib.py, its subclass in the edited file
        lib += DESCR
        main += ['from lib import Da', 'class Db(Da):', '    pass']
        dcls = []
    if form == 0:
        main += eng + dcls + ka
        engline = (main.index('class Eng(object):') + 2, '/r/main.py')
    else:
        lib += eng + dcls + ka if kind != 'inherit_lib' else eng
        if kind == 'inherit_lib':
            main = ['from lib import Da, Eng', 'class Db(Da):', '    pass'] + ka
        else:
            main += ['from lib import *']
        engline = (lib.index('class Eng(object):') + 2, '/r/lib.py')
    last = 'Ka'
    for d in range(depth):
        new = ('Kb', 'Kc')[d]
        main += ['class %s(%s):' % (new, last), '    bb = %d' % d]
        last = new
    if via == 0:
        main += ['obj = %s()' % last, 'obj.aa.zz']
        cur = (len(main), 7)
    else:
        main += ['class Probe(%s):' % last, '    def probe(self):', '        self.aa.zz']
        cur = (len(main), 16)
    files = {'/r/main.py': '\n'.join(main) + '\n'}
    if lib:
        files['/r/lib.py'] = '\n'.join(lib) + '\n'
    return files, cur, (engline[1], engline[0], 4), last


def chain_oracle(dk, depth):
    """under CPython the attribute is the object the method returns"""
    files, cur, eng, last = chain_build(dk if DKINDS[dk] != 'inherit_lib' else 2, depth, 0, 0)
    ns = {}
    text = '\n'.join(files['/r/main.py'].split('\n')[:-2]) + '\n'
    exec(compile(text, 'oracle.py', 'exec'), ns)
    v = ns['obj'].aa
    return type(v).__name__ == 'Eng' and 'zz' in vars(type(v))


def chain_problems(dk, depth, form, via):
    files, cur, eng, last = chain_build(dk, depth, form, via)
    if not chain_oracle(dk, depth):
        return ['oracle: CPython does not evaluate obj.aa to an Eng']
    FS.clear()
    FS.update(files)
    text = files['/r/main.py']
    with patched():
        prefix, props = assist(Project(['/r']), text, cur, '/r/main.py')
        loc = location(Project(['/r']), text, (cur[0], cur[1] + 1), '/r/main.py')
    bad = []
    if 'zz' not in props:
        bad.append('%s().aa is the Eng the %s-decorated method returns; proposals after .aa. lack zz: %r' % (last, DKINDS[dk], props[:6]))
    flat = []
    for x in loc:
        flat.extend(x if isinstance(x, list) else [x])
    got = set((x['file'], x['loc'][0], x['loc'][1]) for x in flat)
    if got != {eng}:
        bad.append('definition of .aa.zz: Python finds Eng.zz at %r, supp answers %r' % (eng, sorted(got)))
    return bad


def check_chain(dk: int, depth: int, form: int, via: int) -> bool:
    """
    pre: 0 <= dk <= 4 and 0 <= depth <= 2 and 0 <= form <= 1 and 0 <= via <= 1
    post: _
    """
    PATHS[0] += 1
    from crosshair.tracers import NoTracing
    dk, depth, form, via = _c(dk, 0, 4), _c(depth, 0, 2), _c(form, 0, 1), _c(via, 0, 1)
    with NoTracing():
        if TWIN[0]:
            return False
        return not chain_problems(dk, depth, form, via)


def _c(v, lo, hi):
    for j in range(lo, hi + 1):
        if v == j:
            return j
    return lo


def decode(h, m0, m1, m2, m3, extra):
    """member configuration: one member per class (kind x name = 10 options), plus a second member in class 0"""
    hier = HIER[h]
    ms = []
    for ci, code in enumerate((m0, m1, m2, m3)[:len(hier)]):
        if code == 10:
            ms.append([])
        else:
            ms.append([(KINDS[code // 2], NAMES[code % 2])])
    if extra < 10:
        ms[0].append((KINDS[extra // 2], NAMES[extra % 2]))
    elif extra > 10:
        ms[0].append(('self_ann', NAMES[extra - 11]))
    return ms


def check(h: int, m0: int, m1: int, m2: int, m3: int, extra: int, form: int, attr: int, via: int) -> bool:
    """
    pre: 0 <= h <= 8
    pre: 0 <= m0 <= 10 and 0 <= m1 <= 10 and 0 <= m2 <= 10 and 0 <= m3 <= 10 and 0 <= extra <= 12
    pre: 0 <= form <= 3 and 0 <= attr <= 1 and 0 <= via <= 2
    post: _
    """
    PATHS[0] += 1
    from crosshair.tracers import NoTracing
    h = _c(h, 0, 8)
    n = len(HIER[h])
    m0, m1, m2, m3 = _c(m0, 0, 10), _c(m1, 0, 10) if n > 1 else 10, _c(m2, 0, 10) if n > 2 else 10, _c(m3, 0, 10) if n > 3 else 10
    extra, form, attr, via = _c(extra, 0, 12), _c(form, 0, 3), _c(attr, 0, 1), _c(via, 0, 2)
    with NoTracing():
        if TWIN[0]:
            return False
        return not problems(h, decode(h, m0, m1, m2, m3, extra), FORMS[form], attr, ('instance', 'class', 'self')[via])
