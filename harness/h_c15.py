"""C15 remote calls are transparent, failures isolated.  The real Environment request methods / _call and the
real Server.run / process / request methods talk over an in-memory connection pair with the real umsgpack in
between.  The request script is solver-enumerated (E)."""
import logging
import os

from supp import assistant, linter
from supp.project import Project
from supp.remote import Environment
from supp.server import Server

logging.disable(logging.CRITICAL)
PATHS = [0]
TWIN = [False]
ROOT = os.environ.get('VERIF_C15_ROOT', '')
SRC = 'import mod\nvalue = mod.thing\nmod.thing\nundefined_name\n'
KINDS = ('configure', 'assist', 'location', 'lint', 'eval', 'unknown', 'arity', 'eval_raises', 'unserialisable', 'bad_position',
         'surrogate_result', 'cyclic_result', 'huge_int_result', 'namedtuple_pos', 'subclass_result', 'lint_broken_star')
FAILING = ('unknown', 'arity', 'eval_raises', 'unserialisable', 'bad_position', 'surrogate_result', 'cyclic_result',
           'huge_int_result', 'lint_broken_star')
SRC_BROKEN = 'from mod import *\nfrom broken import *\nthing\n'
SRC_MOD = 'import mod\nmod.\n'
MOD_V2 = 'thing = 1\nlater = 2\ndef func():\n    return later\n'
OVER = {}       # path -> (mtime, text): edits made during a request history (the files on disk stay as materialised)


def materialise(path):
    os.makedirs(path, exist_ok=True)
    with open(os.path.join(path, 'mod.py'), 'w') as f:
        f.write('thing = 1\ndef func():\n    return thing\n')
    with open(os.path.join(path, 'broken.py'), 'w') as f:
        f.write('def broken(:\n')


import io
import collections
import supp.module as _sm
_real_getmtime = _sm.getmtime
_real_open = open
_sm.getmtime = lambda p: OVER[p][0] if p in OVER else _real_getmtime(p)
_sm.open = lambda p, *a: io.StringIO(OVER[p][1]) if p in OVER else _real_open(p, *a)
Position = collections.namedtuple('Position', 'line column')


class Idle(BaseException):
    pass


class ServerConn(object):
    def __init__(self):
        self.inbox = []
        self.peer = None
        self.closed = False

    def poll(self, t=0):
        if not self.inbox:
            raise Idle()
        return True

    def recv_bytes(self):
        return self.inbox.pop(0)

    def send_bytes(self, b):
        self.peer.inbox.append(b)

    def close(self):
        self.closed = True


class ClientConn(object):
    def __init__(self, server_conn, server):
        self.inbox = []
        self.sc = server_conn
        self.server = server
        self.server_returned = False

    def send_bytes(self, b):
        self.sc.inbox.append(b)

    def recv_bytes(self):
        if not self.server_returned:
            try:
                self.server.run()
                self.server_returned = True     # the loop ended: the server process would exit
            except Idle:
                pass
        if not self.inbox:
            raise EOFError('server gone')
        return self.inbox.pop(0)

    def close(self):
        pass


def make_pair():
    sc = ServerConn()
    server = Server(sc)
    cc = ClientConn(sc, server)
    sc.peer = cc
    env = Environment()
    env.conn = cc
    return env, cc


def norm(x):
    if isinstance(x, (list, tuple)):
        return [norm(y) for y in x]
    if isinstance(x, dict):
        return {k: norm(v) for k, v in x.items()}
    return x


def remote(env, kind, fn):
    """-> ('ok', value) or ('exc', message)"""
    try:
        if kind == 'configure':
            return 'ok', env.configure({'sources': [ROOT]})
        if kind == 'assist':
            return 'ok', env.assist(SRC, (3, 4), fn)
        if kind == 'location':
            return 'ok', env.location(SRC, (2, 15), fn)
        if kind == 'lint':
            return 'ok', env.lint(SRC, fn)
        if kind == 'eval':
            return 'ok', env.eval('return 40 + 2')
        if kind == 'unknown':
            return 'ok', env._call('nosuch_method', 1)
        if kind == 'arity':
            return 'ok', env._call('lint')
        if kind == 'eval_raises':
            return 'ok', env.eval('raise ValueError("boom")')
        if kind == 'unserialisable':
            return 'ok', env.eval('return object()')
        if kind == 'bad_position':
            return 'ok', env.assist(SRC, 5, fn)
        if kind == 'surrogate_result':
            return 'ok', env.eval('return chr(0xd800)')
        if kind == 'cyclic_result':
            return 'ok', env.eval('x = []\nx.append(x)\nreturn x')
        if kind == 'huge_int_result':
            return 'ok', env.eval('return 2 ** 70')
        if kind == 'namedtuple_pos':
            return 'ok', env.assist(SRC, Position(3, 4), fn)
        if kind == 'subclass_result':
            return 'ok', env.eval('import collections, time\nclass L(list): pass\n'
                                  'return [collections.namedtuple("P", "a b")(1, (2,)), time.gmtime(0), L([3]), {"k": L()}]')
        if kind == 'lint_broken_star':
            return 'ok', env.lint(SRC_BROKEN, fn)
        if kind == 'assist_mod':
            return 'ok', env.assist(SRC_MOD, (2, 4), fn)
    except Exception as e:
        return 'exc', str(e)
    raise ValueError(kind)


class Local(object):
    """the in-process API on an identical project"""

    def __init__(self):
        self.project = None

    def call(self, kind, fn):
        if kind == 'configure':
            self.project = Project([ROOT])
            return 'ok', None
        if kind in ('assist', 'location', 'lint', 'namedtuple_pos', 'lint_broken_star', 'assist_mod') and self.project is None:
            return 'exc', None
        if self.project is not None:
            # the reference is the in-process API on a project that has no history: a new one per request
            self.project = Project([ROOT])
        if kind == 'namedtuple_pos':
            return 'ok', assistant.assist(self.project, SRC, Position(3, 4), fn)
        if kind == 'assist_mod':
            return 'ok', assistant.assist(self.project, SRC_MOD, (2, 4), fn)
        if kind == 'lint_broken_star':
            try:
                linter.lint(self.project, SRC_BROKEN, fn)
            except SyntaxError:
                return 'exc', None
            return 'exc', '<the in-process lint does not fail>'
        if kind == 'subclass_result':
            import time
            return 'ok', [[1, [2]], list(time.gmtime(0)), [3], {'k': []}]
        if kind == 'assist':
            with self.project.check_changes():
                return 'ok', assistant.assist(self.project, SRC, (3, 4), fn)
        if kind == 'location':
            with self.project.check_changes():
                return 'ok', assistant.location(self.project, SRC, (2, 15), fn)
        if kind == 'lint':
            with self.project.check_changes():
                return 'ok', [r[:4] for r in linter.lint(self.project, SRC, fn)]
        if kind == 'eval':
            return 'ok', 42
        if kind == 'eval_raises':
            return 'exc', 'boom'
        if kind in ('unserialisable', 'surrogate_result', 'cyclic_result', 'huge_int_result'):
            return 'exc', 'Serialize error'
        return 'exc', None          # unknown method, wrong arity, bad position: some exception with the server's message


def problems(script):
    """script: indices into KINDS, or kind names ('edit' rewrites mod.py with a new modification time)"""
    fn = os.path.join(ROOT, 'main.py')
    env, cc = make_pair()
    ref = Local()
    bad = []
    OVER.clear()
    for i, k in enumerate(script):
        kind = k if isinstance(k, str) else KINDS[k]
        if kind == 'edit':
            OVER[os.path.join(ROOT, 'mod.py')] = (_real_getmtime(os.path.join(ROOT, 'mod.py')) + 7, MOD_V2)
            continue
        got = remote(env, kind, fn)
        want = ref.call(kind, fn)
        if want[0] == 'ok':
            if got[0] != 'ok':
                bad.append('request %d (%s): remote call raised %r, the in-process API answers' % (i, kind, got[1]))
            elif norm(got[1]) != norm(want[1]):
                bad.append('request %d (%s): remote %r, in-process %r' % (i, kind, norm(got[1]), norm(want[1])))
        else:
            if got[0] != 'exc':
                bad.append('request %d (%s): must fail, remote call returned %r' % (i, kind, got[1]))
            elif want[1] is not None and got[1] != want[1]:
                bad.append('request %d (%s): exception message %r, server message %r' % (i, kind, got[1], want[1]))
            elif not got[1] or got[1] == 'server gone':
                bad.append('request %d (%s): no server message (%r)' % (i, kind, got[1]))
        if cc.server_returned:
            bad.append('the server loop ended after request %d (%s)' % (i, kind))
            break
    return bad


def _c(v, lo, hi):
    for j in range(lo, hi + 1):
        if v == j:
            return j
    return lo


WARM = ('assist_mod', 'assist', 'location', 'lint', 'namedtuple_pos')
FINAL = ('assist_mod', 'assist', 'location', 'lint')


def history_script(warm, fail, edit_first, final):
    """configure; a request that analyses mod.py; a failing request; mod.py edited (before or after the failure);
    a request that reads mod.py again"""
    mid = ['edit', FAILING[fail]] if edit_first else [FAILING[fail], 'edit']
    return ['configure', WARM[warm]] + mid + [FINAL[final]]


def history(warm: int, fail: int, edit_first: int, final: int) -> bool:
    """
    pre: 0 <= warm <= 4 and 0 <= fail <= 8 and 0 <= edit_first <= 1 and 0 <= final <= 3
    post: _
    """
    PATHS[0] += 1
    from crosshair.tracers import NoTracing
    warm, fail, edit_first, final = _c(warm, 0, 4), _c(fail, 0, 8), _c(edit_first, 0, 1), _c(final, 0, 3)
    with NoTracing():
        if TWIN[0]:
            return False
        return not problems(history_script(warm, fail, edit_first, final))


def check(n: int, a: int, b: int, c: int) -> bool:
    """
    pre: 1 <= n <= 3
    pre: 0 <= a <= 15 and 0 <= b <= 15 and 0 <= c <= 15
    post: _
    """
    PATHS[0] += 1
    from crosshair.tracers import NoTracing
    n, a, b, c = _c(n, 1, 3), _c(a, 0, 15), _c(b, 0, 15), _c(c, 0, 15)
    with NoTracing():
        if TWIN[0]:
            return False
        return not problems([a, b, c][:n])
