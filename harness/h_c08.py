"""C08 totality: lint / assist / location on every cursor position of a family of programs and of their
typing-state mutations.  Solver-enumerated (E): program, mutation, cursor are solver variables compared against
finite domains; each path is one concrete run of the real API.  Oracle: real compile()."""
import ast
import os

from supp.assistant import assist, location
from supp.linter import lint
from supp.project import Project

PATHS = [0]
TWIN = [False]
ROOT = os.environ.get('VERIF_C08_ROOT', '')

MODS = {
    'cyca.py': 'from cycb import y\nx = y\n',
    'cycb.py': 'from cyca import x\ny = x\n',
    'stara.py': 'from starb import *\nsa = 1\n',
    'starb.py': 'from stara import *\nsb = 2\n',
    'pk/__init__.py': 'from . import sub\nfrom .sub import deep\n',
    'pk/sub.py': 'deep = 1\nfrom . import sub as again\n',
    'ring1.py': 'from ring3 import h\n',
    'ring2.py': 'from ring1 import h\n',
    'ring3.py': 'from ring2 import h\n',
    'selfimp.py': 'from selfimp import me\n',
    'allmod.py': "_N = 'other'\nclass Api: pass\nmore = []\n__all__ = ['pub', _N, Api.__name__.lower(), *more, f'{_N}', 'a' + 'b', 3]\npub = 1\nother = 2\n",
    'allmod2.py': "__all__ = make()\n__all__ += ['x']\n__all__ = __all__ = ('p', b'q', None)\np = 1\n",
}

ADVERSARIAL = [
    'a = b\nb = a\na.x\nb\n',
    'class A(B): pass\nclass B(A): pass\nA().m\nB.n\n',
    'def f():\n    return g()\ndef g():\n    return f()\nf().x\ng\n',
    'import cyca\ncyca.x.real\nfrom cycb import y\ny.imag\n',
    'from stara import *\nsa\nsb\n',
    'class C:\n    def m(self):\n        for self.x in []:\n            pass\n        with open(f) as self.y, g as (self.z, w):\n            return self.x\n',
    'return 1\nyield 2\nbreak\ncontinue\n',
    'class K:\n    return 5\n',
    'locals = 1\nlocals()\ndef f(locals):\n    return locals()\n',
    'len\nlen.x\nimport sys\nsys\nsys.path\nimport zlib\nzlib.crc32\n',
    'from nosuch import thing\nimport nosuch2.sub\nthing.x\nnosuch2.sub.y\n',
    'from . import rel\nfrom .. import up\nfrom .rel import name\nrel.x\n',
    'import pk\npk.sub.deep\nfrom pk import sub\nsub.again.again.deep\n',
    'x = [i for i in range(3) for self.j in i]\n',
    'def f(a, b=(lambda: f)()):\n    return f(a)(b)\nf(1).x\n',
    'x: int\ny: list[int] = []\nself.z: int = 1\nx\n',
    'class A:\n    a = A\n    def a(self): return self.a().a\nA().a().a\n',
    'v = v.v\nv.v.v\n',
    'def gen():\n    yield from gen()\n    x = yield\n    await x\n',
    'lambda: (yield)\n',
    'global g\nnonlocal n\n',
    'def f():\n    nonlocal q\n    q = 1\n',
    'try:\n    pass\nexcept* E as e:\n    e\n',
    'match x:\n    case [a, b]:\n        a\n    case {"k": v}:\n        v\n',
    'type T = int\ndef f[T](x: T) -> T: return x\nclass G[U]: pass\n',
    'del x\ndel a.b, c[0]\n',
    'with a as b.c[0], d as [e, *f]: pass\n',
    'for a.b[c] in d: pass\nfor [x, (y, *z)] in w: x, y, z\n',
    '(a := 1, [b := 2 for _ in c])\n',
    'import a.b.c, a.b as ab\na.b.c.d\nab.c\n',
    'from os import path, sep as s\npath.join\ns.join\n',
    '"str".upper().lower\n(1).real\nb"x".decode\n',
    'class P:\n    @property\n    def p(self): return self\n    @staticmethod\n    def s(): return P()\nP().p.p\nP.s().p\n',
    '',
    '\n\n',
    '#\n',
    'x = (\n',
    'def\n',
    '  indented\n',
    'a = 1\n\tb = 2\n',
    'f(\n  a,\n  b.c,\n)\n',
    'if x:\n  pass\nelif y:\n  z = x.w\nelse:\n  z.q\n',
    'from ring1 import h\nh.a\nh\nfrom selfimp import me\nme.x\n',
    '*(a, b), c = x\na\nfor *(p, q), r in y: p\n[0 for *(s, t), u in z]\n',
    'import os.path\nos\nos.path\nimport xml.dom\nxml\n',
    'class A:\n    def f(self):\n        self.a = self.b\n        self.b = self.a\n        self.a.x\n        self.b\n',
    'class A(A): pass\nA.x\nA().y\nclass B(C): pass\nclass C(D): pass\nclass D(B):\n    d = 1\nB().d\nC.d\n',
    'x = x.y = x\nx.y.y\n',
    'import os  # type: module\nx = 1  # type: int\nif x:  # type: ignore\n    y = [  # type: list\n        x]\n# type: str\nprint(x, y)\n',
    'def f(a, b):  # type: (int, str) -> None\n    return a  # type: ignore[misc]\nf(1,  # type: int\n  2)\n',
    'from allmod import *\npub\nother\nfrom allmod2 import *\np\n',
    'class K:\n    if x:\n        return 1\n    for i in y:\n        yield i\n        break\n    with z:\n        return\n    def m(self): return 1\nK().m\n',
    'if c:\n    K = dict\nelse:\n    K = list\nclass S(K): pass\nS().x\nS.y\nK().z\nK.w\n',
    'x = 1\n\x0cy = x\ny\nz = "a\x0bb"\nz\n\x1cw = 1\n',
    'x = 0\n' + 'if x: pass\n' * 250 + 'x\n',
    'x = 0\n' + 'x = x.y\n' * 250 + 'x\n',
    'class B:\n    async def f(self):\n        async with a as b, c as self.d:\n            async for self.e in b: pass\n        return [x async for x in y]\n    @deco\n    async def g(self): pass\nB().f\nB().g\n',
]


def materialise(path):
    for rel, text in MODS.items():
        p = os.path.join(path, rel)
        os.makedirs(os.path.dirname(p), exist_ok=True)
        with open(p, 'w') as f:
            f.write(text)
    os.makedirs(os.path.join(path, 'inpkg'), exist_ok=True)
    with open(os.path.join(path, 'inpkg', '__init__.py'), 'w') as f:
        f.write('')
    with open(os.path.join(path, 'inpkg', 'rel.py'), 'w') as f:
        f.write('name = 1\nx = 2\n')


def family_programs():
    from vlib import family, tharness
    out = []
    for sh in tharness.all_shapes():
        if sh.name.startswith('enum_') and int(sh.name[5:]) % 12:
            continue
        parts = [q for q in family.var_partitions(sh, 60) if tharness.compiles(sh, q, [])]
        if parts:
            out.append(family.render(sh, tharness.canon(sh, parts[len(parts) // 2], [])))
    return out


PROGRAMS = ADVERSARIAL + family_programs()
NPROG = len(PROGRAMS)
NMUT = 5


def mutate(text, mut, line, col):
    """typing-state mutations relative to the cursor (line, col)"""
    lines = text.split('\n')
    if mut == 0:
        return text
    if line > len(lines):
        return text
    if mut == 1:        # line truncated at the cursor
        lines[line - 1] = lines[line - 1][:col]
        return '\n'.join(lines)
    if mut == 2:        # trailing dot at the cursor
        lines[line - 1] = lines[line - 1][:col] + '.' + lines[line - 1][col:]
        return '\n'.join(lines)
    if mut == 3:        # line deleted
        del lines[line - 1]
        return '\n'.join(lines)
    if mut == 4:        # file truncated at the cursor
        return '\n'.join(lines[:line - 1] + [lines[line - 1][:col]])
    return text


def compiles(text):
    try:
        compile(text, 'f.py', 'exec', ast.PyCF_ONLY_AST)
        return None
    except SyntaxError as e:
        return e
    except (ValueError, RecursionError) as e:       # null bytes etc.
        return e


def well_formed_locs(locs):
    if not isinstance(locs, list):
        return False
    for x in locs:
        for y in (x if isinstance(x, list) else [x]):
            if not (isinstance(y, dict) and set(y) == {'loc', 'file'} and isinstance(y['loc'], tuple) and
                    len(y['loc']) == 2 and (y['file'] is None or isinstance(y['file'], str))):
                return False
    return True


def problems(prog, mut, line, col):
    text0 = PROGRAMS[prog]
    text = mutate(text0, mut, line, col)
    lines = text.split('\n')
    if line > len(lines) or col > len(lines[line - 1]):
        return []
    fname = os.path.join(ROOT, 'inpkg', 'main.py')
    bad = []
    project = Project([ROOT])
    # lint
    try:
        res = lint(project, text, fname)
    except Exception as e:
        return ['lint raised %s: %s' % (type(e).__name__, str(e)[:80])]
    err = compiles(text)
    e01 = [r for r in res if r[0] == 'E01']
    if not isinstance(res, list):
        bad.append('lint did not return a list')
    elif isinstance(err, SyntaxError):
        if len(e01) != 1 or len(res) != 1:
            bad.append('text does not parse but lint returned %r' % ([r[:4] for r in res][:3],))
        elif (e01[0][1], e01[0][2], e01[0][3]) != (err.msg, err.lineno, err.offset):
            bad.append('E01 %r differs from CPython %r' % (e01[0][1:4], (err.msg, err.lineno, err.offset)))
    elif err is None and e01:
        bad.append('text parses but lint reports E01')
    # assist / location at the cursor
    for fn in (assist, location):
        try:
            r = fn(project, text, (line, col), fname)
        except SyntaxError:
            ln = lines[line - 1]
            marked = '\n'.join(lines[:line - 1] + [ln[:col] + '__supp_mark__' + ln[col:]] + lines[line:])
            if compiles(marked) is None:
                bad.append('%s raised SyntaxError although the cursor-marked text parses' % fn.__name__)
            continue
        except RecursionError as e:
            bad.append('%s raised RecursionError' % fn.__name__)
            continue
        except Exception as e:
            bad.append('%s raised %s: %s' % (fn.__name__, type(e).__name__, str(e)[:80]))
            continue
        if fn is assist:
            if not (isinstance(r, tuple) and len(r) == 2 and isinstance(r[0], str) and isinstance(r[1], list) and
                    all(isinstance(x, str) for x in r[1])):
                bad.append('assist returned a malformed result %r' % (r,))
        elif not well_formed_locs(r):
            bad.append('location returned a malformed result %r' % (r,))
    return bad


def _c(v, lo, hi):
    for j in range(lo, hi + 1):
        if v == j:
            return j
    return lo


MAXLINE, MAXCOL = 9, 40


def cursor_positions(text):
    lines = text.split('\n')
    return [(l, c) for l in range(1, min(len(lines), MAXLINE) + 1) for c in range(0, min(len(lines[l - 1]), MAXCOL) + 1)]


POSITIONS = [cursor_positions(t) for t in PROGRAMS]
MAXPOS = max(len(p) for p in POSITIONS)


def check(prog: int, mut: int, pos: int) -> bool:
    """
    pre: 0 <= prog < NPROG
    pre: 0 <= mut < NMUT
    pre: 0 <= pos < MAXPOS
    post: _
    """
    PATHS[0] += 1
    from crosshair.tracers import NoTracing
    p, m = _c(prog, 0, NPROG - 1), _c(mut, 0, NMUT - 1)
    k = -1
    for j in range(len(POSITIONS[p])):      # only the cursor positions this program has
        if pos == j:
            k = j
            break
    if k < 0:
        return True
    with NoTracing():
        if TWIN[0]:
            return False
        l, c = POSITIONS[p][k]
        return not problems(p, m, l, c)
