"""C09 cache transparency: a long-lived Project answers like a fresh one.
History = sequence of edits (which file, which content variant) -- solver-enumerated (E) -- with *symbolic*
modification times (S): the only constraint is that an edit changes the file's mtime.  File access goes through
an in-memory file system (supp.project.os, supp.module.getmtime/open rebound); ast.parse and nast.extract run
under NoTracing (they never see an mtime)."""
import io

from crosshair.tracers import NoTracing
import supp.project as sp
import supp.module as sm
import supp.nast as sn
import supp.util as su
from supp.project import Project
from supp.assistant import assist, location
from supp.linter import lint

import logging
logging.disable(logging.CRITICAL)
PATHS = [0]
TWIN = [False]
REAL_OS = sp.os
FS = {}

VARIANTS = {
    'a': ['from b import *\n', 'import b\nx = b.x\n', 'from b import x\n', 'from b import x as y\nimport b\n'],
    'b': ['x = 1\n', 'y = 1\nx = y\n', 'from c import *\n', 'from c import z as x\n'],
    'c': ['z = 1\nx = 2\n', 'w = 1\nz = w\n', 'x = 3\nz = 4\ny = 5\n'],
    'pk/d': ['q = 1\n', 'r = 2\nq = r\n', 'from c import *\n'],
}
FILES = ('a', 'b', 'c', 'pk/d')


class FakePath(object):
    @staticmethod
    def exists(p):
        return p in FS

    @staticmethod
    def isdir(p):
        return False

    join = staticmethod(REAL_OS.path.join)
    dirname = staticmethod(REAL_OS.path.dirname)
    basename = staticmethod(REAL_OS.path.basename)


class FakeOS(object):
    path = FakePath

    @staticmethod
    def listdir(d):
        out = [p[len(d) + 1:] for p in FS if p.startswith(d + '/') and '/' not in p[len(d) + 1:]]
        if not out:
            raise OSError(d)
        return out


_extract, _parse = sn.extract, su.parse


def extract_nt(*a, **k):
    with NoTracing():
        return _extract(*a, **k)


def parse_nt(*a, **k):
    with NoTracing():
        return _parse(*a, **k)


from vlib import fakeos
fakeos.complete(FakeOS, FakePath)


class patched(object):
    def __enter__(self):
        self.old = (sm.getmtime, sm.__dict__.get('open'), Project.get_path)
        sp.os = FakeOS
        sm.getmtime = lambda p: FS[p][0]
        sm.open = lambda p, *a: io.StringIO(FS[p][1])
        sn.extract = extract_nt
        su.parse = parse_nt
        Project.get_path = lambda s: list(s.sources)

    def __exit__(self, *a):
        sp.os = REAL_OS
        sm.getmtime = self.old[0]
        if self.old[1] is None:
            del sm.open
        else:
            sm.open = self.old[1]
        sn.extract, su.parse = _extract, _parse
        Project.get_path = self.old[2]
        return False


REQUESTS = (
    ('assist', 'import a\na.', (2, 2)),
    ('location', 'import a\na.x', (2, 3)),
    ('lint', 'from a import x\nprint(x)\n', None),
    ('assist', 'from a import ', (1, 14)),
    ('location', 'from b import x\nx', (2, 1)),
    ('assist', 'from pk import d\nd.', (2, 2)),
    ('assist', 'import pk.d\npk.d.', (2, 5)),
    ('assist', 'import c\nc.', (2, 2)),
    ('assist', 'from pk import ', (1, 15)),
)
VIA_IMPORTERS = (0, 1, 2, 3, 4)      # requests that reach c.py through a.py / b.py


def ask(project, req):
    kind, src, pos = REQUESTS[req]
    with project.check_changes():
        if kind == 'assist':
            return assist(project, src, pos, '/r/m.py')
        if kind == 'location':
            return location(project, src, pos, '/r/m.py')
        return [r[:4] for r in lint(project, src, '/r/m.py')]


def _c(v, lo, hi):
    for j in range(lo, hi + 1):
        if v == j:
            return j
    return lo


def history_ok(init, ops, times, req, warm):
    """init: (va, vb, vc) initial variants (vc = -1: c.py does not exist yet)
    ops: list of (file index, variant); times: symbolic mtimes, times[0..2] initial, then one per op"""
    FS.clear()
    FS['/r/pk/__init__.py'] = [0, '']
    for i, f in enumerate(FILES):
        if init[i] >= 0:
            FS['/r/%s.py' % f] = [times[i] if i < 3 else times[5], VARIANTS[f][init[i]]]
    with patched():
        p = Project(['/r'])
        ask(p, warm)
        for k, (fi, v) in enumerate(ops):
            path = '/r/%s.py' % FILES[fi]
            FS[path] = [times[3 + k], VARIANTS[FILES[fi]][v]]
            if k + 1 < len(ops):
                ask(p, warm)
        got = ask(p, req)
        fresh = ask(Project(['/r']), req)
    return got == fresh, got, fresh


def check(va: int, vb: int, vc: int, f1: int, v1: int, f2: int, v2: int, nops: int, req: int, warm: int,
          t0: int, t1: int, t2: int, t3: int, t4: int, vd: int = -1, t5: int = 0) -> bool:
    """
    pre: 0 <= va <= 3 and 0 <= vb <= 3 and -1 <= vc <= 2 and -1 <= vd <= 2
    pre: 0 <= f1 <= 3 and 0 <= v1 <= 3 and 0 <= f2 <= 3 and 0 <= v2 <= 3
    pre: 1 <= nops <= 2 and 0 <= req <= 8 and 0 <= warm <= 8
    post: _
    """
    PATHS[0] += 1
    va, vb, vc, vd = _c(va, 0, 3), _c(vb, 0, 3), _c(vc, -1, 2), _c(vd, -1, 2)
    f1, v1, f2, v2 = _c(f1, 0, 3), _c(v1, 0, 3), _c(f2, 0, 3), _c(v2, 0, 3)
    nops, req, warm = _c(nops, 1, 2), _c(req, 0, 8), _c(warm, 0, 8)
    if (f1 >= 2 and v1 > 2) or (f2 >= 2 and v2 > 2):
        return True
    ops = [(f1, v1), (f2, v2)][:nops]
    init = (va, vb, vc, vd)
    times = [t0, t1, t2, t3, t4, t5]
    # an edit changes the file's modification time (a creation has no previous time); nothing else is assumed
    # about the clock: it may run backwards or repeat an older value
    cur = {0: t0, 1: t1, 2: t2 if vc >= 0 else None, 3: t5 if vd >= 0 else None}
    for k, (fi, v) in enumerate(ops):
        if cur[fi] is not None and times[3 + k] == cur[fi]:
            return True
        cur[fi] = times[3 + k]
    if known_history(init, ops, req):
        return True
    ok, got, fresh = history_ok(init, ops, times, req, warm)
    if TWIN[0]:
        return False
    return ok


def _listed():
    import json
    from vlib.runner import KNOWN as p
    try:
        return any(e['property'] == 'C09' and e.get('status') == 'known' and
                   e.get('match', {}).get('kind') == 'create_after_failed_import' for e in json.load(open(p))['findings'])
    except (OSError, ValueError):
        return False


LISTED = _listed()


def known_history(init, ops, req):
    """listed finding: a module that did not exist when its importer was analysed is created later, and the
    request reaches it through that (cached, unchanged) importer.  c.py is imported by b.py (and by pk/d.py
    variant 2); requests that import the created module themselves are not covered by the finding."""
    if not LISTED:
        return False
    init = tuple(init) + (-1,) * (4 - len(init))
    exists = [True, True, init[2] >= 0, init[3] >= 0]
    created_c = False
    for fi, v in ops:
        if not exists[fi] and fi == 2:
            created_c = True
        exists[fi] = True
    if not created_c:
        return False
    if req in VIA_IMPORTERS:
        return True
    # pk/d.py variant 2 star-imports c: requests through pk.d see c through a cached importer too
    d_imports_c = (init[3] == 2) or any(fi == 3 and v == 2 for fi, v in ops)
    return d_imports_c and req in (5, 6)
