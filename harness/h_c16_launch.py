"""C16 launch handshake: the real Environment._run with the process launch, the connection attempt and the clock
replaced by stubs.  Which attempts fail and how (socket not there yet, connection refused, another OSError), and
the clock (any non-decreasing sequence of instants: it may move at every read and during every sleep), are solver
variables (S for the clock, E for the failure script).
Claims (the deadline is the constant the code compares the elapsed time with, 5 s today): (1) a failed attempt before the launch deadline is retried, never reported to the caller;
(2) once an attempt has failed after the deadline no further attempt is made: the caller gets the launch-timeout
exception (the call is answered, it does not hang);  (3) the first successful attempt ends the handshake with the
connection stored and exactly one process launched."""
import subprocess
import multiprocessing.connection as mpc

import supp.remote as R

PATHS = [0]
TWIN = [False]


def _deadline():
    """the launch deadline the code itself names: the constant of the '<elapsed> > N' test in Environment._run"""
    import ast
    import inspect
    import textwrap
    try:
        tree = ast.parse(textwrap.dedent(inspect.getsource(R.Environment._run)))
    except (OSError, TypeError, SyntaxError):
        return 5
    for n in ast.walk(tree):
        if isinstance(n, ast.Compare) and len(n.ops) == 1 and isinstance(n.ops[0], (ast.Gt, ast.GtE)) and \
                isinstance(n.left, ast.BinOp) and isinstance(n.left.op, ast.Sub) and \
                isinstance(n.comparators[0], ast.Constant) and isinstance(n.comparators[0].value, (int, float)):
            return n.comparators[0].value
    return 5


DEADLINE = _deadline()
KINDS = (FileNotFoundError, ConnectionRefusedError, OSError, None)     # None: the attempt succeeds


class Budget(BaseException):
    """more attempts than the scripted ones: outside the bound"""


class Clock(object):
    def __init__(self, start, drift, naps):
        self.now = start
        self.drift = list(drift)
        self.naps = list(naps)
        self.reads = 0
        self.sleeps = 0

    def time(self):
        v = self.now
        d = self.drift[self.reads] if self.reads < len(self.drift) else 0
        self.reads += 1
        self.now = self.now + d
        return v

    monotonic = time
    perf_counter = time

    def sleep(self, s):
        d = self.naps[self.sleeps] if self.sleeps < len(self.naps) else 0
        self.sleeps += 1
        self.now = self.now + d


class World(object):
    def __init__(self, kinds, clock):
        self.kinds = kinds
        self.clock = clock
        self.launched = 0
        self.attempts = []      # clock value at the end of each attempt, outcome

    def popen(self, args, env=None, **kw):
        self.launched += 1
        return object()

    def client(self, addr, *a, **k):
        j = len(self.attempts)
        if j >= len(self.kinds):
            raise Budget()
        exc = KINDS[self.kinds[j]]
        self.attempts.append((self.clock.now, exc is None))
        if exc is None:
            return ('conn', j)
        raise exc('attempt %d' % j)


def handshake(kinds, start, drift, naps):
    """-> list of problems"""
    clock = Clock(start, drift, naps)
    w = World(kinds, clock)
    saved = (subprocess.Popen, mpc.Client, R.time, mpc.arbitrary_address)
    subprocess.Popen, mpc.Client, R.time = w.popen, w.client, clock
    mpc.arbitrary_address = lambda family: '/nonexistent/supp-verif-addr'
    env = R.Environment('python-x')
    out = None
    try:
        try:
            env._run()
            out = ('returned', None)
        except Budget:
            out = ('budget', None)
        except Exception as e:
            out = ('raised', str(e))
    finally:
        subprocess.Popen, mpc.Client, R.time, mpc.arbitrary_address = saved
    bad = []
    launch = None
    # the launch instant is the first clock value the code can have read: the clock's start
    launch = start
    late_failure = None
    for j, (at, ok) in enumerate(w.attempts):
        if late_failure is not None:
            bad.append('attempt %d made although attempt %d had failed %r s after the launch (deadline %r s)'
                       % (j, late_failure[0], late_failure[1], DEADLINE))
            break
        if not ok and at - launch > DEADLINE:
            late_failure = (j, at - launch)
    if out[0] == 'raised':
        if late_failure is None:
            bad.append('the handshake reported %r to the caller although no attempt had failed after the deadline' % out[1])
        elif 'timeout' not in out[1]:
            bad.append('launch failure reported as %r' % out[1])
    if out[0] == 'returned':
        if not w.attempts or not w.attempts[-1][1]:
            bad.append('_run returned without a successful connection attempt')
        elif getattr(env, 'conn', None) != ('conn', len(w.attempts) - 1):
            bad.append('the connection of the successful attempt was not stored')
    if w.launched != 1:
        bad.append('%d processes launched' % w.launched)
    if out[0] == 'budget' and late_failure is not None and not bad:
        bad.append('still retrying after attempt %d failed %r s after the launch' % late_failure)
    return bad, out


def _k(v):
    for j in range(4):
        if v == j:
            return j
    return 0


def launch(n: int, k0: int, k1: int, k2: int, k3: int, k4: int, start: int,
           d0: int, d1: int, d2: int, d3: int, d4: int, d5: int, s0: int, s1: int, s2: int, s3: int, s4: int) -> bool:
    """
    pre: 1 <= n <= 5
    pre: 0 <= k0 <= 3 and 0 <= k1 <= 3 and 0 <= k2 <= 3 and 0 <= k3 <= 3 and 0 <= k4 <= 3
    pre: d0 >= 0 and d1 >= 0 and d2 >= 0 and d3 >= 0 and d4 >= 0 and d5 >= 0
    pre: s0 >= 0 and s1 >= 0 and s2 >= 0 and s3 >= 0 and s4 >= 0
    post: _
    """
    PATHS[0] += 1
    kinds = [_k(k0), _k(k1), _k(k2), _k(k3), _k(k4)]
    m = 1
    for j in range(1, 6):
        if n == j:
            m = j
    bad, out = handshake(kinds[:m], start, [d0, d1, d2, d3, d4, d5], [s0, s1, s2, s3, s4])
    if TWIN[0]:
        return False
    return not bad
