"""C16 server side: the real Server.run loop on a scripted connection.  The script (which message is a
request / close / EOF / undecodable bytes, at which position) is chosen by symbolic ints (solver-enumerated:
every path is concrete, label E)."""
import logging
from crosshair.tracers import NoTracing
import supp.server as srv
from supp.umsgpack import dumps, loads

logging.disable(logging.CRITICAL)
PATHS = [0]
TWIN = [False]


class Idle(BaseException):
    """raised by poll() when the script is exhausted: unwinds run() where a real poll would keep waiting"""


class Conn(object):
    def __init__(self, script):
        self.script = list(script)
        self.i = 0
        self.replies = []
        self.closed = False

    def poll(self, t=0):
        if self.i >= len(self.script):
            raise Idle()
        return True

    def recv_bytes(self):
        k = self.script[self.i]
        self.i += 1
        if k == 0:
            return dumps(('eval', ('return 40 + 2',), {}))
        if k == 1:
            return dumps(('close', (), {}))
        if k == 2:
            raise EOFError()
        return b'\xc1'          # reserved code: undecodable

    def send_bytes(self, b):
        self.replies.append(loads(b))

    def close(self):
        self.closed = True


def _k(i):
    if i == 0:
        return 0
    if i == 1:
        return 1
    if i == 2:
        return 2
    return 3


def run_script(script):
    conn = Conn(script)
    s = srv.Server(conn)
    idle = False
    try:
        s.run()
    except Idle:
        idle = True
    term = [j for j, k in enumerate(script) if k != 0]
    if not term:
        # no terminator: every request answered, server still waiting
        return idle and conn.replies == [[42, True]] * len(script) and not conn.closed
    t = term[0]
    if idle:
        return False            # the loop survived a close / EOF / undecodable message
    return conn.i == t + 1 and conn.replies == [[42, True]] * t and conn.closed == (script[t] == 1)


def server_exits(n: int, a: int, b: int, c: int) -> bool:
    """
    pre: 0 <= n <= 3
    pre: 0 <= a <= 3 and 0 <= b <= 3 and 0 <= c <= 3
    post: _
    """
    PATHS[0] += 1
    script = [_k(a), _k(b), _k(c)]
    if n == 0:
        script = []
    elif n == 1:
        script = script[:1]
    elif n == 2:
        script = script[:2]
    with NoTracing():
        return run_script(script) and not TWIN[0]
