"""C01 import forms (solver-enumerated, E): import / from-import / star-import of generated project modules
and of standard-library modules.  Each program is executed by real CPython beforehand (props/c01.py, in a
subprocess, project root on sys.path): when it runs without NameError every identifier read succeeded, so lint
must report no E02/E42 for any of them and name completion at the end of each read must offer it."""
import ast
import json
import os

from supp.assistant import assist
from supp.linter import lint
from supp.project import Project

PATHS = [0]
TWIN = [False]
ROOT = os.environ.get('VERIF_C01_ROOT', '')

MODS = {
    'pa/__init__.py': 'x = 1\nfrom . import sub\nfrom .sub import y as suby\n',
    'pa/sub.py': 'y = 2\nz = 3\n_hidden = 4\n',
    'pb.py': 'from pa.sub import *\nw = z\n',
    'pall.py': '__all__ = ["_listed", "shown"]\n_listed = 1\nshown = 2\nnot_listed = 3\n',
    'pall2.py': 'narrow = 0\nif narrow:\n    __all__ = ["alpha"]\nelse:\n    __all__ = ["alpha", "beta"]\nalpha = 1\nbeta = 2\n',
    'pall3.py': '__all__ = ["alpha"]\nalpha = 1\nbeta = 2\ngamma = 3\nif alpha:\n    __all__ = ["alpha", "beta"]\n__all__ += ["gamma"]\n',
    'pkg/__init__.py': '',
    'pkg/sib.py': 'v = 1\n',
    'pkg/deep/__init__.py': 'from .. import sib\n',
    'pkg/deep/leaf.py': 'from ..sib import v as leafv\nfrom . import leaf as me\n',
}
# (file the program lives in, program)
PROGRAMS = [
    ('main.py', 'import pa\npa\npa.x\npa.sub.y\n'),
    ('main.py', 'import pa.sub\npa.sub.y\npa\n'),
    ('main.py', 'import pa.sub as s\ns.y\n'),
    ('main.py', 'from pa import x\nx\n'),
    ('main.py', 'from pa import x as q, sub, suby\nq\nsub.y\nsuby\n'),
    ('main.py', 'from pa import *\nx\nsub\nsuby\n'),
    ('main.py', 'from pb import *\ny\nz\nw\n'),
    ('main.py', 'from pa.sub import *\ny\nz\n'),
    ('main.py', 'from pall import *\nshown\n_listed\n'),
    ('main.py', 'from pall2 import *\nalpha\nbeta\n'),
    ('main.py', 'from pall3 import *\nalpha\nbeta\ngamma\n'),
    ('main.py', 'import pa, pb as q\npa\nq\nq.w\n'),
    ('main.py', 'import os\nos.path\nfrom os.path import join\njoin\nfrom collections import *\nOrderedDict\ndeque\n'),
    ('main.py', 'import os.path, sys as system\nos\nsystem\nsystem.path\n'),
    ('main.py', 'def f():\n    import pa\n    from pa import x, sub as s\n    return pa, x, s\nf()\n'),
    ('main.py', 'class K:\n    import pa\n    from pa import x\n    val = (pa, x)\nK\n'),
    ('main.py', 'try:\n    import nosuchmod\nexcept ImportError:\n    nosuchmod = None\nnosuchmod\n'),
    ('main.py', 'if 1:\n    from pa import x\nelse:\n    x = 0\nx\n'),
    ('pkg/main.py', 'from . import sib\nfrom .sib import v\nsib.v\nv\n'),
    ('pkg/deep/main.py', 'from .. import sib\nfrom ..sib import v as w\nfrom . import leaf\nfrom .leaf import leafv, me\nsib\nw\nleaf\nleafv\nme\n'),
    ('pkg/deep/main.py', 'from ..sib import *\nv\nfrom pkg.deep.leaf import *\nleafv\nme\n'),
    ('pkg/deep/main.py', 'from .leaf import *\nfrom ..sib import *\nleafv\nv\n'),
    ('pkg/deep/main.py', 'from ..sib import *\nfrom .leaf import *\nv\nleafv\nme\n'),
]
try:
    RUNS_OK = json.load(open(os.path.join(ROOT, 'runs_ok.json')))
except (OSError, ValueError):
    RUNS_OK = [False] * len(PROGRAMS)


def materialise(path):
    for rel, text in MODS.items():
        p = os.path.join(path, rel)
        os.makedirs(os.path.dirname(p), exist_ok=True)
        with open(p, 'w') as f:
            f.write(text)
    for i, (rel, text) in enumerate(PROGRAMS):
        p = os.path.join(path, os.path.dirname(rel), 'prog%d.py' % i)
        os.makedirs(os.path.dirname(p), exist_ok=True)
        with open(p, 'w') as f:
            f.write(text)


def problems(i):
    rel, text = PROGRAMS[i]
    if not RUNS_OK[i]:
        return []           # CPython raised: nothing is claimed about this program
    fname = os.path.join(ROOT, os.path.dirname(rel), 'prog%d.py' % i)
    project = Project([ROOT])
    res = lint(project, text, fname)
    flagged = {(r[2], r[3]): r for r in res if r[0] in ('E02', 'E42')}
    bad = []
    for n in ast.walk(ast.parse(text)):
        if isinstance(n, ast.Name) and isinstance(n.ctx, ast.Load):
            if (n.lineno, n.col_offset) in flagged:
                bad.append('%s at %r: lint says %s although CPython executes the read' % (n.id, (n.lineno, n.col_offset),
                                                                                   flagged[(n.lineno, n.col_offset)][1]))
            prefix, props = assist(Project([ROOT]), text, (n.lineno, n.col_offset + len(n.id)), fname)
            if n.id not in props:
                bad.append('%s at %r: name completion does not offer it' % (n.id, (n.lineno, n.col_offset)))
    return bad


def check(case: int) -> bool:
    """
    pre: 0 <= case < NPROG
    post: _
    """
    PATHS[0] += 1
    from crosshair.tracers import NoTracing
    c = 0
    for j in range(len(PROGRAMS)):
        if case == j:
            c = j
    with NoTracing():
        if TWIN[0]:
            return False
        return not problems(c)


NPROG = len(PROGRAMS)
