"""C12(a): the completion prefix.  The whole of assist() runs on a *symbolic* line left of the cursor.
Stubs: supp.assistant.Source -> object with the given lines and an empty Module tree (the prefix does not
depend on the tree); project -> no packages.  Oracle: longest identifier-character suffix."""
import ast
import supp.assistant as A
from supp.util import SOURCE_MARK

PATHS = [0]
TWIN = [False]
ALPHA = 'ab1_ ([{,=+:.#\'"-'


class FakeSource(object):
    LINE = ['']

    def __init__(self, source, filename=None, position=None):
        self.filename = filename
        self.lines = [FakeSource.LINE[0] + SOURCE_MARK]
        self.tree = ast.Module(body=[], type_ignores=[])
        self.source = self.lines[0]


class FakeProject(object):
    def norm_package(self, root, filename):
        return root

    def list_packages(self, root):
        return set()

    def get_nmodule(self, name, filename):
        raise ImportError(name)


A.Source = FakeSource
A.extract_scope = lambda source, project: None


def ref_prefix(line):
    """longest suffix made of identifier characters only (forward search over suffixes)"""
    for k in range(len(line) + 1):
        if all(ch == '_' or ch.isalnum() for ch in line[k:]):
            return line[k:]
    return ''


def run(line):
    FakeSource.LINE[0] = line
    prefix, proposals = A.assist(FakeProject(), 'ignored', (1, len(line)), 'f.py')
    return prefix


def prefix_any(line: str) -> bool:
    """
    pre: len(line) <= 5
    pre: all(ch in ALPHA for ch in line)
    post: _
    """
    PATHS[0] += 1
    return run(line) == ref_prefix(line) and not TWIN[0]


def prefix_from(tail: str) -> bool:
    """
    pre: len(tail) <= 4
    pre: all(ch in 'ab1_ .' for ch in tail)
    post: _
    """
    PATHS[0] += 1
    line = 'from ' + tail
    return run(line) == ref_prefix(line) and not TWIN[0]


def prefix_len(n: int, line: str) -> bool:
    """
    pre: len(line) == n
    post: _
    """
    PATHS[0] += 1
    return run(line) == ref_prefix(line) and not TWIN[0]


ENUM_ALPHA = ['a', '1', '_', '\u00e9', '\u00df', '\u03a9', ' ', '.', '(', '#']


def enum_line(n, cs):
    return ''.join(ENUM_ALPHA[c] for c in cs[:n])


def _c(v, lo, hi):
    for j in range(lo, hi + 1):
        if v == j:
            return j
    return lo


def prefix_enum(n: int, c0: int, c1: int, c2: int, c3: int) -> bool:
    """
    pre: 0 <= n <= 4
    pre: 0 <= c0 <= 9 and 0 <= c1 <= 9 and 0 <= c2 <= 9 and 0 <= c3 <= 9
    post: _
    """
    PATHS[0] += 1
    from crosshair.tracers import NoTracing
    n = _c(n, 0, 4)
    cs = [_c(c0, 0, 9), _c(c1, 0, 9) if n > 1 else 0, _c(c2, 0, 9) if n > 2 else 0, _c(c3, 0, 9) if n > 3 else 0]
    with NoTracing():
        if TWIN[0]:
            return False
        line = enum_line(n, cs)
        return run(line) == ref_prefix(line)
