"""C12(a): the completion prefix.  The whole of assist() runs on a *symbolic* line left of the cursor.
Stubs: supp.assistant.Source -> object with the given lines and an empty Module tree (the prefix does not
depend on the tree); project -> no packages.  Oracle: longest identifier-character suffix."""
import ast
import supp.assistant as A
from supp.util import SOURCE_MARK

PATHS = [0]
TWIN = [False]
ALPHA = 'ab1_ ([{,=+:.#\'"-'


class FakeSource(object):
    LINE = ['']

    def __init__(self, source, filename=None, position=None):
        self.filename = filename
        self.lines = [FakeSource.LINE[0] + SOURCE_MARK]
        self.tree = ast.Module(body=[], type_ignores=[])
        self.source = self.lines[0]


class FakeProject(object):
    def norm_package(self, root, filename):
        return root

    def list_packages(self, root):
        return set()

    def get_nmodule(self, name, filename):
        raise ImportError(name)


A.Source = FakeSource
A.extract_scope = lambda source, project: None


def ref_prefix(line):
    """longest suffix made of identifier characters only (forward search over suffixes)"""
    for k in range(len(line) + 1):
        if all(ch == '_' or ch.isalnum() for ch in line[k:]):
            return line[k:]
    return ''


def run(line):
    FakeSource.LINE[0] = line
    prefix, proposals = A.assist(FakeProject(), 'ignored', (1, len(line)), 'f.py')
    return prefix


def prefix_any(line: str) -> bool:
    """
    pre: len(line) <= 5
    pre: all(ch in ALPHA for ch in line)
    post: _
    """
    PATHS[0] += 1
    return run(line) == ref_prefix(line) and not TWIN[0]


def prefix_from(tail: str) -> bool:
    """
    pre: len(tail) <= 4
    pre: all(ch in 'ab1_ .' for ch in tail)
    post: _
    """
    PATHS[0] += 1
    line = 'from ' + tail
    return run(line) == ref_prefix(line) and not TWIN[0]


def prefix_len(n: int, line: str) -> bool:
    """
    pre: len(line) == n
    post: _
    """
    PATHS[0] += 1
    return run(line) == ref_prefix(line) and not TWIN[0]
