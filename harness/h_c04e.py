"""C04, evaluator level (solver-enumerated, E): a history of requests on one long-lived Project (module cache,
cached class objects, attribute tables, resolved imports) must not change the answer to the next request:
the last request of every history is compared with the same request on a fresh Project."""
import logging
import os

from supp.assistant import assist, location
from supp.linter import lint
from supp.project import Project

logging.disable(logging.CRITICAL)
PATHS = [0]
TWIN = [False]
ROOT = os.environ.get('VERIF_C04_ROOT', '')

MODS = {
    'shapesmod.py': 'class Shape(object):\n    kind = "shape"\n    def __init__(self):\n        self.width = 1\n'
                    '    def area(self):\n        self.cached = 2\n        return self.width\n'
                    'class Circle(Shape):\n    radius = 3\n    def area(self):\n        self.extra = 4\n        return self.radius\n'
                    'def make():\n    return Circle()\nvalue = make()\nalias = value\n',
    'usesmod.py': 'from shapesmod import *\nthing = Shape()\nthing.tag = 1\n',
    'pkgq/__init__.py': '',
    'pkgq/far.py': 'farval = 1\n',
    'pkgq/sub/__init__.py': '',
    'pkgq/sub/near.py': 'nearval = 2\n',
    'scyca.py': 'from scycb import *\naaa = 1\n',
    'scycb.py': 'from scyca import *\nbbb = 2\n',
    'factories.py': 'class Alpha(object):\n    alpha_attr = 1\nclass Beta(object):\n    beta_attr = 2\n'
                    'def make_alpha(n):\n    if n:\n        result = Alpha()\n    else:\n        result = make_beta(n)\n    return result\n'
                    'def make_beta(n):\n    if n:\n        result = Beta()\n    else:\n        result = make_alpha(n)\n    return result\n'
                    'first = make_alpha(0)\nsecond = make_beta(0)\n',
}
REQUESTS = [
    ('assist', 'from shapesmod import Shape\nShape().', (2, 8)),
    ('location', 'from shapesmod import Shape\nShape().width', (2, 10)),
    ('assist', 'from shapesmod import Shape\nShape.', (2, 6)),
    ('location', 'from shapesmod import Shape\nShape.width', (2, 8)),
    ('location', 'from shapesmod import Shape\nShape.kind', (2, 8)),
    ('assist', 'import shapesmod\nshapesmod.value.', (2, 16)),
    ('location', 'from shapesmod import Circle\nCircle().area', (2, 10)),
    ('assist', 'from shapesmod import Circle\nCircle.', (2, 7)),
    ('location', 'from shapesmod import Circle\nCircle.extra', (2, 9)),
    ('lint', 'from shapesmod import *\nprint(value, Shape, nothing)\n', None),
    ('assist', 'import usesmod\nusesmod.thing.', (2, 14)),
    ('assist', 'from usesmod import Shape\nShape.', (2, 6)),
    ('assist', 'from . import near\nnear.', (2, 5), 'pkgq/sub/mod.py'),
    ('assist', 'from .. import far\nfar.', (2, 4), 'pkgq/sub/mod.py'),
    ('location', 'from ..far import farval\nfarval', (2, 3), 'pkgq/sub/mod.py'),
    ('assist', 'import factories\nfactories.first.', (2, 16)),
    ('assist', 'import factories\nfactories.second.', (2, 17)),
    ('assist', 'from factories import make_beta\nmake_beta(1).', (2, 13)),
    ('location', 'from factories import make_alpha\nmake_alpha(1).beta_attr', (2, 16)),
    ('assist', 'import scyca\nscyca.', (2, 6)),
    ('assist', 'import scycb\nscycb.', (2, 6)),
]
NREQ = len(REQUESTS)


def materialise(path):
    os.makedirs(path, exist_ok=True)
    for rel, text in MODS.items():
        os.makedirs(os.path.dirname(os.path.join(path, rel)), exist_ok=True)
        with open(os.path.join(path, rel), 'w') as f:
            f.write(text)


def ask(project, r):
    kind, src, pos = REQUESTS[r][:3]
    fn = os.path.join(ROOT, REQUESTS[r][3] if len(REQUESTS[r]) > 3 else 'main.py')
    with project.check_changes():
        if kind == 'assist':
            return assist(project, src, pos, fn)
        if kind == 'location':
            return location(project, src, pos, fn)
        return [x[:4] for x in lint(project, src, fn)]


def problems(history):
    p = Project([ROOT])
    for r in history[:-1]:
        ask(p, r)
    got = ask(p, history[-1])
    fresh = ask(Project([ROOT]), history[-1])
    if got != fresh:
        return ['after requests %r the answer to %r is %r, on a fresh project %r'
                % ([REQUESTS[r][:2] for r in history[:-1]], REQUESTS[history[-1]][:2], got, fresh)]
    return []


def _c(v, lo, hi):
    for j in range(lo, hi + 1):
        if v == j:
            return j
    return lo


def check(n: int, a: int, b: int, c: int) -> bool:
    """
    pre: 2 <= n <= 3
    pre: 0 <= a < NREQ and 0 <= b < NREQ and 0 <= c < NREQ
    post: _
    """
    PATHS[0] += 1
    from crosshair.tracers import NoTracing
    n, a, b, c = _c(n, 2, 3), _c(a, 0, NREQ - 1), _c(b, 0, NREQ - 1), _c(c, 0, NREQ - 1)
    with NoTracing():
        if TWIN[0]:
            return False
        return not problems([a, b, c][:n] if n == 3 else [a, b])
