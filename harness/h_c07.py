"""C07 module resolution vs Python's import system.
(a) Project.norm_package vs importlib.util.resolve_name  -- dots / tail / which directories are packages symbolic
(b) Project.get_module vs a PathFinder model             -- one symbolic bool per candidate file, root order symbolic
(c) Project.list_packages vs the model's child listing   -- same symbolic file system
(d) split_pkg / join_pkg                                 -- symbolic dotted names
The file system is an in-memory stub (supp.project.os rebound); the PathFinder model is validated against the
real importlib on a materialised tree (props/c07.py)."""
import importlib.util
import sys
import types

from vlib import fakeos

import supp.project as sp
from supp.project import Project
from supp.util import split_pkg, join_pkg

PATHS = [0]
TWIN = [False]
REAL_OS = sp.os
EXT = [s for s in sp.SUFFIXES if s.endswith('.so')][0]


class FakePath(object):
    def __init__(self, files):
        self.files = files

    def exists(self, p):
        return p in self.files

    def isdir(self, p):
        pre = p.rstrip('/') + '/'
        if hasattr(self.files, 'under'):
            return len(self.files.under(pre)) > 0
        return any(f.startswith(pre) for f in self.files)

    def isdir(self, p):
        pre = p.rstrip('/') + '/'
        return any(f.startswith(pre) for f in self.files)

    join = staticmethod(REAL_OS.path.join)
    dirname = staticmethod(REAL_OS.path.dirname)
    basename = staticmethod(REAL_OS.path.basename)


class FakeOS(object):
    def __init__(self, files):
        self.files = files
        self.path = FakePath(files)
        fakeos.complete(self, self.path)

    def listdir(self, d):
        out = []
        pre = d.rstrip('/') + '/'
        for f in (self.files.under(pre) if hasattr(self.files, 'under') else self.files):
            if f.startswith(pre):
                head = f[len(pre):].split('/')[0]
                if head not in out:
                    out.append(head)
        if not out:
            raise OSError(d)
        return out


class fs(object):
    """context: supp.project sees only `files`; sys.path entries are not consulted (Project.get_path stub)"""

    def __init__(self, files):
        self.files = files

    def __enter__(self):
        sp.os = FakeOS(self.files)
        sp.getmtime = lambda f: 1
        import supp.module as sm
        self._gm = sm.getmtime
        sm.getmtime = lambda f: 1
        self._imp = sp.__dict__.get('__import__')
        self.loaded = []

        def fake_import(name, *a, **k):
            m = types.ModuleType(name)
            sys.modules[name] = m
            self.loaded.append(name)
            return m
        sp.__dict__['__import__'] = fake_import
        self._gp = Project.get_path
        Project.get_path = lambda s: list(s.sources)
        return self

    def __exit__(self, *a):
        import supp.module as sm
        sp.os = REAL_OS
        sm.getmtime = self._gm
        Project.get_path = self._gp
        if self._imp is None:
            del sp.__dict__['__import__']
        else:
            sp.__dict__['__import__'] = self._imp
        for n in self.loaded:
            sys.modules.pop(n, None)
        return False


# ------------------------------------------------------------------ (a) norm_package
def norm_vs_importlib(dots: int, tail: str, depth: int, dots2: int, h0: bool, h1: bool, h2: bool, h3: bool) -> bool:
    """
    pre: 1 <= dots <= 5 and 1 <= dots2 <= 5 and 0 <= depth <= 4
    pre: tail in ('', 'm', 'm.n', 'q')
    post: _
    """
    PATHS[0] += 1
    dirs = ['p0', 'p1', 'p2', 'p3'][:depth]
    has = [h0, h1, h2, h3][:depth]
    for i in range(depth):
        for j in range(i + 1, depth):
            if has[i] and not has[j]:
                return True     # a plain directory inside a package (PEP 420 territory): outside the domain
    filename = '/'.join(['/r'] + dirs + ['f.py'])
    other = '/'.join(['/r'] + dirs + ['g.py'])
    files = set('/'.join(['/r'] + dirs[:i + 1] + ['__init__.py']) for i in range(depth) if has[i])
    # importlib's view: the package of f.py is the dotted chain of package directories above it; a directory
    # without __init__.py ends the chain (namespace packages are outside the domain)
    chain = []
    for i in range(depth - 1, -1, -1):
        if not has[i]:
            break
        chain.insert(0, dirs[i])
    package = '.'.join(chain)
    with fs(files):
        p = Project(['/r'])
        res = []
        # the same file with another level, then a sibling file: both go through the memo of the first call
        for fn, d in ((filename, dots), (filename, dots2), (other, dots2), (filename, dots)):
            name = '.' * d + tail
            try:
                got = p.norm_package(name, fn)
            except ImportError:
                got = 'ImportError'
            try:
                want = importlib.util.resolve_name(name, package) if package else 'ImportError'
            except ImportError:
                want = 'ImportError'
            res.append(got == want)
    if TWIN[0]:
        return False
    return res[0] and res[1] and res[2] and res[3]


# ------------------------------------------------------------------ (b),(c) get_module / list_packages
ROOTS = ('/ra', '/rb')
NAMES = ('zqm', 'zqp', 'zqp.sub', 'zqp.other', 'zqp.sub.leaf', 'zqx', 'zqp.nope', 'zqm.sub')
# Per root the tree is described by five small integers (solver variables), which keeps every tree inside
# the property's domain by construction (no module/package or source/extension clash in one directory, no
# namespace packages) and lets a path fork only on the files the code actually asks about:
#   m: 0 absent, 1 zqm.py, 2 zqm/__init__.py, 3 zqm<ext>.so      p: 0 absent, 1 zqp/__init__.py
#   sub (needs p): 0 absent, 1 zqp/sub.py, 2 zqp/sub/__init__.py    other (needs p): 0/1 zqp/other<ext>.so
#   leaf (needs sub == 2): 0/1 zqp/sub/leaf.py
RELS = ('zqm.py', 'zqm/__init__.py', 'zqm' + EXT, 'zqp/__init__.py', 'zqp/sub.py', 'zqp/sub/__init__.py',
        'zqp/other' + EXT, 'zqp/sub/leaf.py')


class LazyFiles(object):
    """membership is decided (and the path forks) only when a file is asked for"""

    def __init__(self, kinds):
        self.k = kinds      # {root: (m, p, sub, other, leaf)}

    def _cond(self, path):
        for r in ROOTS:
            if path.startswith(r + '/'):
                m, p, sub, other, leaf = self.k[r]
                rel = path[len(r) + 1:]
                if rel == 'zqm.py':
                    return m == 1
                if rel == 'zqm/__init__.py':
                    return m == 2
                if rel == 'zqm' + EXT:
                    return m == 3
                if rel == 'zqp/__init__.py':
                    return p == 1
                if rel == 'zqp/sub.py':
                    return p == 1 and sub == 1
                if rel == 'zqp/sub/__init__.py':
                    return p == 1 and sub == 2
                if rel == 'zqp/other' + EXT:
                    return p == 1 and other == 1
                if rel == 'zqp/sub/leaf.py':
                    return p == 1 and sub == 2 and leaf == 1
        return False

    def __contains__(self, path):
        return bool(self._cond(path))

    def all_paths(self):
        return [r + '/' + rel for r in ROOTS for rel in RELS]

    def __iter__(self):
        return iter([f for f in self.all_paths() if f in self])

    def under(self, prefix):
        return [f for f in self.all_paths() if f.startswith(prefix) and f in self]


def model_find(files, roots, name):
    """PathFinder: the first root providing the top-level name wins; a submodule is searched only inside
    the directory of its parent package.  Returns the file or None."""
    parts = name.split('.')
    search = list(roots)
    found = None
    for i, part in enumerate(parts):
        found = None
        for d in search:
            pkg = d + '/' + part + '/__init__.py'
            if pkg in files:
                found = pkg
                break
            for suf in (EXT, '.py'):
                f = d + '/' + part + suf
                if f in files:
                    found = f
                    break
            if found:
                break
        if found is None:
            return None
        if i + 1 < len(parts):
            if not found.endswith('/__init__.py'):
                return None
            search = [found[:-len('/__init__.py')]]
    return found


def universe(kinds, swap):
    files = LazyFiles({ROOTS[0]: tuple(kinds[:5]), ROOTS[1]: tuple(kinds[5:])})
    roots = [ROOTS[1], ROOTS[0]] if swap else list(ROOTS)
    return files, roots


def _pick(i, seq):
    for j in range(len(seq)):
        if i == j:
            return seq[j]
    return seq[0]


def resolve_one(name, files, roots):
    with fs(files):
        p = Project(roots)
        try:
            m = p.get_module(name)
            got = getattr(m, 'filename', None) or ('<loaded %s>' % name)
        except ImportError:
            got = None
    want = model_find(files, roots, name)
    if want is not None and not want.endswith('.py'):
        want = '<loaded %s>' % name         # extension modules are imported, not analysed
    return got, want


def get_module_vs_model(n: int, swap: bool, am: int, ap: int, asub: int, aoth: int, aleaf: int,
                        bm: int, bp: int, bsub: int, both: int, bleaf: int) -> bool:
    """
    pre: 0 <= n < 8
    pre: 0 <= am <= 3 and 0 <= ap <= 1 and 0 <= asub <= 2 and 0 <= aoth <= 1 and 0 <= aleaf <= 1
    pre: 0 <= bm <= 3 and 0 <= bp <= 1 and 0 <= bsub <= 2 and 0 <= both <= 1 and 0 <= bleaf <= 1
    post: _
    """
    PATHS[0] += 1
    files, roots = universe([am, ap, asub, aoth, aleaf, bm, bp, bsub, both, bleaf], bool(swap))
    name = _pick(n, NAMES)
    got, want = resolve_one(name, files, roots)
    if TWIN[0]:
        return False
    return got == want


def model_children(files, roots, pkg):
    """what importlib can enumerate below pkg: pkgutil.iter_modules over the owning package directory"""
    f = model_find(files, roots, pkg)
    if f is None or not f.endswith('/__init__.py'):
        return None
    d = f[:-len('/__init__.py')]
    pre = d + '/'
    out = set()
    for f in files.under(pre):
        rest = f[len(pre):]
        head = rest.split('/')[0]
        if '/' in rest:
            if (pre + head + '/__init__.py') in files:
                out.add(head)
        elif head != '__init__.py':
            out.add(head.split('.')[0])
    return out


def list_packages_vs_model(k: int, swap: bool, am: int, ap: int, asub: int, aoth: int, aleaf: int,
                           bm: int, bp: int, bsub: int, both: int, bleaf: int) -> bool:
    """
    pre: 0 <= k < 2
    pre: 0 <= am <= 3 and 0 <= ap <= 1 and 0 <= asub <= 2 and 0 <= aoth <= 1 and 0 <= aleaf <= 1
    pre: 0 <= bm <= 3 and 0 <= bp <= 1 and 0 <= bsub <= 2 and 0 <= both <= 1 and 0 <= bleaf <= 1
    post: _
    """
    PATHS[0] += 1
    files, roots = universe([am, ap, asub, aoth, aleaf, bm, bp, bsub, both, bleaf], bool(swap))
    pkg = _pick(k, ('zqp', 'zqp.sub'))
    want = model_children(files, roots, pkg)
    if want is None:
        return True
    with fs(files):
        got = set(x for x in Project(roots).list_packages(pkg))
    loaded = set(m[len(pkg) + 1:].split('.')[0] for m in sys.modules if m.startswith(pkg + '.'))
    if TWIN[0]:
        return False
    # every child importlib can enumerate is proposed; nothing is proposed that is neither importable nor loaded
    return want <= got and got <= (want | loaded)


# ------------------------------------------------------------------ (d) string kernels
def split_join(p: str) -> bool:
    """
    pre: len(p) <= 5
    pre: all(ch in 'ab.' for ch in p)
    post: _
    """
    PATHS[0] += 1
    # valid specifiers: leading dots then a dotted name without empty components (or nothing)
    body = p.lstrip('.')
    if body and ('' in body.split('.')):
        return True
    if not p:
        return True
    head, tail = split_pkg(p)
    if TWIN[0]:
        return False
    if not body:
        return head == p and tail == ''
    if '.' not in p:
        return head == '' and tail == p
    # joining the two halves gives back a specifier naming the same module
    return join_pkg(head, tail) == p and tail == body.split('.')[-1]
