"""C12(b),(c): proposal hygiene and mark transparency through the real assist(), cursor placed inside and at
the end of every name read, attribute access and import name of a family of programs.  Solver-enumerated (E):
case / target / offset are solver variables compared against their finite domains; each path is concrete."""
import ast
import os

from supp.assistant import assist
from supp.evaluator import EvalCtx
from supp.nast import extract_scope
from supp.project import Project
from supp.util import Source, SOURCE_MARK

from vlib import family, tharness

PATHS = [0]
TWIN = [False]

MODS = {
    'pkga/__init__.py': 'from .inner import thing\nalpha = 1\n',
    'pkga/inner.py': 'thing = 1\nother = 2\n',
    'pkga/deep/__init__.py': '',
    'pkga/deep/leaf.py': 'leafval = 1\n',
    'modb.py': 'class Base(object):\n    cattr = 1\n    def meth(self):\n        self.inst = 1\n        return self\n'
               'def make():\n    return Base()\nvalue = Base()\n',
}
EXTRA = [
    'import modb\nmodb.value.meth\nmodb.Base.cattr\nmodb.make().inst\n',
    'from modb import Base, value\nclass Sub(Base):\n    sattr = 2\n    def run(self):\n        self.extra = 3\n'
    '        self.bar = self.cattr\n        return self.extra\nSub().meth().inst\nvalue.cattr\n',
    'import pkga.inner\nimport pkga.deep.leaf\npkga.inner.thing\npkga.alpha\npkga.deep.leaf.leafval\n',
    'from pkga import alpha, thing\nfrom pkga.inner import other\nfrom pkga.deep import leaf\nleaf.leafval\n',
    'from . import sibling\nfrom .sibling import svalue\nsibling.svalue\n',
    'import os.path\nos.path.join\nx = "text"\nx.upper\n',
    'def gen(src):\n    inner = gen\n    yield from inner\n    try:\n        value = yield from src.items\n    except Exception as err:\n'
    '        raise ValueError(inner) from err\n    return value\n',
    'class Sh:\n    bar = 1\n    def m(self):\n        self.bar = 2\n        self.baz = self.bar\n    def n(self):\n        self.bar = 3\n'
    '        self.baz = 4\n',
    'text = "from here"; other = text\nmsg = "x from y" + other\n',
]


def build_cases():
    cases = []
    for sh in tharness.all_shapes():
        if sh.name.startswith('enum_') and int(sh.name[5:]) % 8:
            continue
        if len(sh.slots) > 7:
            continue
        parts = [p for p in family.var_partitions(sh, 60) if tharness.compiles(sh, p, [])]
        for part in (parts[0], parts[-1]) if len(parts) > 1 else parts:
            naming = {s: 'n%s%s' % (chr(97 + part[s]), chr(97 + part[s])) for s in sh.slots}
            cases.append(family.render(sh, naming))
    return cases + EXTRA


def targets(text):
    out = []
    tree = ast.parse(text)
    for n in ast.walk(tree):
        if isinstance(n, ast.Name) and isinstance(n.ctx, ast.Load):
            out.append(('name', n.lineno, n.col_offset, n.id))
        elif isinstance(n, ast.Attribute) and isinstance(n.ctx, (ast.Load, ast.Store)) and n.end_lineno == n.lineno:
            out.append(('attr', n.end_lineno, n.end_col_offset - len(n.attr), n.attr))
        elif isinstance(n, ast.alias) and n.name != '*' and n.end_lineno == n.lineno:
            last = n.name.rpartition('.')[2]
            out.append(('import', n.lineno, n.col_offset + len(n.name) - len(last), last))
    out.sort(key=lambda t: (t[1], t[2]))
    return out


CASES = build_cases()
TARGETS = [targets(t) for t in CASES]
MAXT = max(len(t) for t in TARGETS)
ROOT = os.environ.get('VERIF_C12_ROOT', '')


def materialise(path):
    for rel, text in MODS.items():
        p = os.path.join(path, rel)
        os.makedirs(os.path.dirname(p), exist_ok=True)
        with open(p, 'w') as f:
            f.write(text)
    os.makedirs(os.path.join(path, 'pkgm'), exist_ok=True)
    for rel, text in (('pkgm/__init__.py', ''), ('pkgm/sibling.py', 'svalue = 1\n')):
        with open(os.path.join(path, rel), 'w') as f:
            f.write(text)


def problems(case, ti, k):
    text = CASES[case]
    kind, line, col, ident = TARGETS[case][ti]
    fname = os.path.join(ROOT, 'pkgm', 'main.py')
    project = Project([ROOT])
    cur = (line, col + k)
    try:
        prefix, props = assist(project, text, cur, fname)
    except SyntaxError:
        return ['assist raised SyntaxError on a text that parses']
    bad = []
    if prefix != ident[:k]:
        bad.append('prefix %r, expected %r' % (prefix, ident[:k]))
    if props != sorted(props) or len(set(props)) != len(props):
        bad.append('proposals not sorted / not duplicate-free: %r' % (props[:8],))
    if any(SOURCE_MARK in p for p in props):
        bad.append('cursor marker in proposals: %r' % [p for p in props if SOURCE_MARK in p])
    # mark transparency against the analysis of the unmarked source
    p2 = Project([ROOT])
    src = Source(text, fname)
    scope = extract_scope(src, p2)
    if kind == 'name' and k == len(ident):
        node = [n for n in ast.walk(src.tree) if isinstance(n, ast.Name) and isinstance(n.ctx, ast.Load) and
                (n.lineno, n.col_offset) == (line, col)][0]
        if hasattr(node, 'flow'):
            want = sorted(node.flow.names_at(cur))
            if props != want:
                bad.append('proposals differ from the unmarked analysis: +%r -%r'
                           % (sorted(set(props) - set(want))[:5], sorted(set(want) - set(props))[:5]))
    elif kind == 'attr':
        node = [n for n in ast.walk(src.tree) if isinstance(n, ast.Attribute) and n.end_lineno == line and
                n.end_col_offset - len(n.attr) == col][0]
        ctx = EvalCtx(p2)
        value = ctx.evaluate(node.value)
        want = sorted(set(value.attr_list(ctx))) if value else []
        if props != want:
            bad.append('attribute proposals differ from the unmarked analysis: +%r -%r'
                       % (sorted(set(props) - set(want))[:5], sorted(set(want) - set(props))[:5]))
    return bad


def _concrete(v, n):
    for j in range(n):
        if v == j:
            return j
    return 0


def check(case: int, target: int, k: int) -> bool:
    """
    pre: 0 <= case < NCASES
    pre: 0 <= target < MAXT
    pre: 1 <= k <= 6
    post: _
    """
    PATHS[0] += 1
    from crosshair.tracers import NoTracing
    c = _concrete(case, len(CASES))
    t = _concrete(target, MAXT)
    kk = _concrete(k, 7)
    with NoTracing():
        if t >= len(TARGETS[c]):
            return True
        if kk > len(TARGETS[c][t][3]):
            return True
        if TWIN[0]:
            return False
        return not problems(c, t, kk)


NCASES = len(CASES)
