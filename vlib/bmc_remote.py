"""C16 engine: supp/remote.py (current source) -> line-level transition system -> z3 BMC over a
symbolic schedule; explicit-state enumeration of the same IR as a cross-check; replay of a schedule on
real threads running the real methods under a sys.settrace line scheduler.

Translation (regenerated on every run from the file's AST):
  * methods prepare, run, _threaded_run, _call, close of class Environment are compiled statement by
    statement into a small IR, one instruction per source line that touches shared state
    (self.prepare_thread, self.prepare_lock, self.conn, self.proc); purely local lines are dropped;
  * self.<method>() calls are inlined; `with self.prepare_lock` = acquire + try/finally release;
    try/except/else/finally are compiled to static handler tables;
  * _run is summarised by its two shared-state effects in source order: `self.proc = Popen(..)` (launch)
    and `self.conn = Client(..)` (connect); both are assumed to succeed at the first attempt;
  * opaque argument expressions (e.g. dumps(('close', (), {}), 2)) are evaluated once, concretely, in the
    real module namespace; only "returns" / "raises <class>" enters the model;
  * anything else that touches shared state raises Unsupported (the check exits 3, never a verdict).
"""
import ast
import itertools
import os
import sys
import threading
import time

AE, TE, RE, XE = 1, 2, 3, 4          # AttributeError, TypeError, RuntimeError, other Exception
KNAME = {0: None, AE: 'AttributeError', TE: 'TypeError', RE: 'RuntimeError', XE: 'Exception'}
KID = {'AttributeError': AE, 'TypeError': TE, 'RuntimeError': RE}
SHARED = ('prepare_thread', 'prepare_lock', 'conn', 'proc')


class Unsupported(Exception):
    pass


# ------------------------------------------------------------------------------------------ compiler
class Ins(object):
    __slots__ = ('op', 'line', 'a', 'handlers', 'idx', 'role')

    def __init__(self, op, line=None, a=None, handlers=()):
        self.op, self.line, self.a, self.handlers = op, line, a, tuple(handlers)

    def __repr__(self):
        return '%s@%s%s' % (self.op, self.line, '' if self.a is None else ' %r' % (self.a,))


def _is_self_attr(node, name=None):
    return isinstance(node, ast.Attribute) and isinstance(node.value, ast.Name) and node.value.id == 'self' \
        and (name is None or node.attr == name)


def _touches_shared(node):
    for n in ast.walk(node):
        if _is_self_attr(n) and n.attr in SHARED:
            return True
        if isinstance(n, ast.Call) and _is_self_attr(n.func):
            return True     # any self.method() call may touch shared state
        if isinstance(n, ast.Call) and isinstance(n.func, ast.Name) and n.func.id == 'hasattr':
            return True
    return False


class Compiler(object):
    def __init__(self, path):
        self.path = path
        self.src = open(path).read()
        self.tree = ast.parse(self.src, path)
        self.cls = None
        for n in self.tree.body:
            if isinstance(n, ast.ClassDef) and n.name == 'Environment':
                self.cls = n
        if self.cls is None:
            raise Unsupported('class Environment not found')
        self.methods = {n.name: n for n in self.cls.body if isinstance(n, ast.FunctionDef)}
        self.module_ns = None
        self.opaque = {}        # source text -> outcome
        self.cuts = []

    # -- opaque concrete evaluation ---------------------------------------------------------------
    def _ns(self):
        if self.module_ns is None:
            import importlib
            import supp.remote as rm
            importlib.reload(rm)
            self.module_ns = dict(vars(rm))
        return self.module_ns

    def eval_opaque(self, node):
        """outcome of an argument expression that does not touch shared state: 0 (returns) or kind"""
        if _touches_shared(node):
            raise Unsupported('line %d: argument expression touches shared state' % node.lineno)
        text = ast.unparse(node)
        if text not in self.opaque:
            ns = dict(self._ns())
            ns.update(name='lint', args=('x = 1\n', 'f.py'), kwargs={})
            try:
                eval(compile(ast.Expression(node), self.path, 'eval'), ns)
                self.opaque[text] = 0
            except Exception as e:
                self.opaque[text] = KID.get(type(e).__name__, XE)
        return self.opaque[text]

    # -- _run summary --------------------------------------------------------------------------------
    def run_summary(self):
        fn = self.methods.get('_run')
        if fn is None:
            raise Unsupported('_run not found')
        out = []
        for n in ast.walk(fn):
            if isinstance(n, ast.Assign) and len(n.targets) == 1 and _is_self_attr(n.targets[0]):
                a = n.targets[0].attr
                if a == 'proc':
                    out.append((n.lineno, 'launch'))
                elif a == 'conn':
                    out.append((n.lineno, 'connect'))
                elif a in SHARED:
                    raise Unsupported('_run assigns self.%s' % a)
            elif isinstance(n, ast.Call) and isinstance(n.func, ast.Name) and n.func.id == 'Popen' and \
                    not any(isinstance(p, ast.Assign) and p.value is n for p in ast.walk(fn)):
                out.append((n.lineno, 'launch'))
        for n in ast.walk(fn):
            if _is_self_attr(n) and n.attr in ('prepare_thread', 'prepare_lock') :
                raise Unsupported('_run touches self.%s' % n.attr)
            if _is_self_attr(n, 'conn') and isinstance(n.ctx, ast.Load):
                raise Unsupported('_run reads self.conn')
            if isinstance(n, ast.Delete):
                raise Unsupported('_run deletes')
        out.sort()
        if [k for _, k in out].count('launch') != 1 or [k for _, k in out].count('connect') != 1:
            raise Unsupported('_run: expected exactly one Popen assignment and one Client assignment, got %r' % out)
        return out

    # -- method compilation -------------------------------------------------------------------------
    def compile_role(self, role):
        """role in prepare/call/close/starter -> list of Ins (ends with halt)"""
        self.code = []
        self.nlocals = {}
        meth = {'prepare': 'prepare', 'call': '_call', 'close': 'close', 'starter': '_threaded_run'}[role]
        self.sent = False
        self._stop = False
        self._frame_base = [0]
        self.role = role
        end = self._label()
        self._body(self.methods[meth].body, [], end, depth=0, top=(role == 'call'))
        self._place(end)
        self.code.append(Ins('halt'))
        return self._resolve()

    def _label(self):
        return ['L', None]

    def _place(self, lab):
        lab[1] = len(self.code)

    def _emit(self, op, line=None, a=None, handlers=()):
        self.code.append(Ins(op, line, a, handlers))
        return self.code[-1]

    def _resolve(self):
        def r(x):
            if isinstance(x, list) and len(x) == 2 and x[0] == 'L':
                if x[1] is None:
                    raise Unsupported('unplaced label')
                return x[1]
            if isinstance(x, tuple):
                return tuple(r(y) for y in x)
            if isinstance(x, dict):
                return {k: r(v) for k, v in x.items()}
            return x
        for i, ins in enumerate(self.code):
            ins.a = r(ins.a)
            ins.handlers = tuple((h[0], r(h[1]), h[2]) for h in ins.handlers)
            ins.idx = i
        return self.code

    def _cond(self, node):
        if isinstance(node, ast.UnaryOp) and isinstance(node.op, ast.Not):
            return ('not', self._cond(node.operand))
        if isinstance(node, ast.BoolOp):
            return ('and' if isinstance(node.op, ast.And) else 'or',) + tuple(self._cond(v) for v in node.values)
        if _is_self_attr(node, 'prepare_thread'):
            return ('pt',)
        if isinstance(node, ast.Name) and node.id in self.nlocals:
            return ('local', node.id)
        if isinstance(node, ast.Call) and isinstance(node.func, ast.Name) and node.func.id == 'hasattr' and \
                len(node.args) == 2 and isinstance(node.args[0], ast.Name) and node.args[0].id == 'self' and \
                isinstance(node.args[1], ast.Constant) and node.args[1].value == 'conn':
            return ('hasconn',)
        if isinstance(node, ast.Compare) and len(node.ops) == 1 and isinstance(node.comparators[0], ast.Constant) \
                and node.comparators[0].value is None and isinstance(node.ops[0], (ast.Is, ast.IsNot)):
            c = self._cond(node.left)
            return ('not', c) if isinstance(node.ops[0], ast.Is) else c
        if isinstance(node, ast.Name) and node.id == 'is_ok':
            return ('true',)
        raise Unsupported('line %d: condition %s' % (node.lineno, ast.unparse(node)))

    def _handle(self, node):
        """expression denoting a thread handle"""
        if _is_self_attr(node, 'prepare_thread'):
            return ('pt',)
        if isinstance(node, ast.Name) and node.id in self.nlocals:
            return ('local', node.id)
        raise Unsupported('line %d: thread handle %s' % (node.lineno, ast.unparse(node)))

    def _is_thread_ctor(self, node):
        if not isinstance(node, ast.Call):
            return None
        f = node.func
        name = f.id if isinstance(f, ast.Name) else f.attr if isinstance(f, ast.Attribute) else None
        if name != 'Thread':
            return None
        for kw in node.keywords:
            if kw.arg == 'target' and _is_self_attr(kw.value):
                return kw.value.attr
        raise Unsupported('line %d: Thread() without target=self.<method>' % node.lineno)

    def _body(self, stmts, H, fn_end, depth, top=False):
        for s in stmts:
            if self._stop:
                return
            self._stmt(s, H, fn_end, depth, top)

    def _finalizers_to(self, H, upto):
        """on `return`: run the normal copy of every enclosing finally (innermost first) down to `upto`"""
        for h in reversed(H[upto:]):
            if h[0] == 'finally':
                h[3](H[:H.index(h)])

    def _stmt(self, s, H, fn_end, depth, top):
        ln = s.lineno
        hs = list(reversed(H))      # innermost first
        if isinstance(s, ast.With):
            if len(s.items) != 1 or not _is_self_attr(s.items[0].context_expr, 'prepare_lock'):
                if _touches_shared(s.items[0].context_expr):
                    raise Unsupported('line %d: with %s' % (ln, ast.unparse(s.items[0].context_expr)))
                return self._body(s.body, H, fn_end, depth, top)
            self._emit('acquire', ln, None, hs)
            exc_copy = self._label()

            def fin(Hout, ln=ln):
                self._emit('release', None, None, list(reversed(Hout)))
            h = ['finally', exc_copy, None, fin]
            self._body(s.body, H + [h], fn_end, depth)
            fin(H)
            after = self._label()
            self._emit('jump', None, after)
            self._place(exc_copy)
            fin(H)
            self._emit('reraise', None, None, hs)
            self._place(after)
            return
        if isinstance(s, ast.If):
            cond = self._cond(s.test)
            els = self._label()
            end = self._label()
            self._emit('branch', ln, (cond, els), hs)
            self._body(s.body, H, fn_end, depth)
            self._emit('jump', None, end)
            self._place(els)
            self._body(s.orelse, H, fn_end, depth)
            self._place(end)
            return
        if isinstance(s, ast.Return):
            if s.value is not None and _touches_shared(s.value):
                raise Unsupported('line %d: return value touches shared state' % ln)
            self._emit('nop', ln, None, hs)
            self._finalizers_to(H, self._frame_base[-1])
            self._emit('jump', None, fn_end)
            return
        if isinstance(s, ast.Try):
            self._try(s, H, fn_end, depth)
            return
        if isinstance(s, ast.Pass):
            return
        if isinstance(s, ast.Raise):
            if self.sent:
                self._stop = True
                self.cuts.append('line %d: raise after the request was sent (server-side failure, outside C16)' % ln)
                return
            self._emit('raise', ln, XE, hs)
            return
        if isinstance(s, ast.Delete):
            if len(s.targets) == 1 and _is_self_attr(s.targets[0], 'conn'):
                self._emit('del_conn', ln, None, hs)
                return
            if _touches_shared(s):
                raise Unsupported('line %d: %s' % (ln, ast.unparse(s)))
            return
        if isinstance(s, ast.Expr):
            return self._expr_stmt(s.value, ln, H, fn_end, depth)
        if isinstance(s, ast.Assign) and len(s.targets) == 1:
            t, v = s.targets[0], s.value
            if _is_self_attr(t, 'prepare_thread'):
                tgt = self._is_thread_ctor(v)
                if tgt:
                    if tgt != '_threaded_run':
                        raise Unsupported('line %d: Thread target %s' % (ln, tgt))
                    self._emit('set_pt', ln, ('new',), hs)
                elif isinstance(v, ast.Constant) and v.value is None:
                    self._emit('set_pt', ln, ('none',), hs)
                elif isinstance(v, ast.Name) and v.id in self.nlocals:
                    self._emit('set_pt', ln, ('local', v.id), hs)
                else:
                    raise Unsupported('line %d: %s' % (ln, ast.unparse(s)))
                return
            if isinstance(t, ast.Name):
                if _is_self_attr(v, 'prepare_thread'):
                    self.nlocals[t.id] = True
                    self._emit('set_local', ln, (t.id, ('pt',)), hs)
                    return
                tgt = self._is_thread_ctor(v)
                if tgt:
                    self.nlocals[t.id] = True
                    self._emit('set_local', ln, (t.id, ('new',)), hs)
                    return
            if _is_self_attr(t) and t.attr in SHARED:
                raise Unsupported('line %d: %s' % (ln, ast.unparse(s)))
            if not _touches_shared(v):
                return
            # value uses the connection: result, is_ok = loads(self.conn.recv_bytes())
            return self._expr_stmt(v, ln, H, fn_end, depth)
        if not _touches_shared(s):
            return
        if self.sent:
            self._stop = True
            self.cuts.append('line %d: %s' % (ln, type(s).__name__))
            return
        raise Unsupported('line %d: %s' % (ln, ast.unparse(s)))

    def _expr_stmt(self, v, ln, H, fn_end, depth):
        hs = list(reversed(H))
        if _is_self_attr(v, 'conn'):
            self._emit('need_conn', ln, None, hs)
            return
        if _is_self_attr(v):
            return
        # find self.<something> calls
        calls = [n for n in ast.walk(v) if isinstance(n, ast.Call)]
        # method call on a thread handle
        if isinstance(v, ast.Call) and isinstance(v.func, ast.Attribute) and v.func.attr in ('start', 'join') and \
                (_is_self_attr(v.func.value, 'prepare_thread') or
                 (isinstance(v.func.value, ast.Name) and v.func.value.id in self.nlocals)):
            h = self._handle(v.func.value)
            if v.func.attr == 'start':
                self._emit('start', ln, h, hs)
            else:
                self._emit('join_read', ln, h, hs)
                self._emit('join_wait', None, None, hs)
            return
        # self.method()
        if isinstance(v, ast.Call) and _is_self_attr(v.func) and v.func.attr in self.methods:
            m = v.func.attr
            for a in list(v.args) + [k.value for k in v.keywords]:
                if self.eval_opaque(a):
                    raise Unsupported('line %d: raising argument' % ln)
            if m == '_run':
                for line, kind in self.run_summary():
                    self._emit(kind, line, None, hs)
                return
            if depth > 4:
                raise Unsupported('recursion')
            if m in ('prepare', 'run', '_threaded_run', 'close'):
                end = self._label()
                base = self._frame_base
                self._frame_base = base + [len(H)]
                self._body(self.methods[m].body, H, end, depth + 1)
                self._frame_base = base
                self._place(end)
                return
            raise Unsupported('line %d: call of self.%s' % (ln, m))
        # connection use: self.conn.<m>(args) possibly nested inside other calls
        conn_calls = [n for n in calls if isinstance(n.func, ast.Attribute) and _is_self_attr(n.func.value, 'conn')]
        if conn_calls:
            c = conn_calls[0]
            rk = 0
            for a in list(c.args) + [k.value for k in c.keywords]:
                rk = rk or self.eval_opaque(a)
            kind = c.func.attr
            # one instruction per line: self.conn is looked up first (AttributeError), then the arguments
            # are evaluated (may raise rk), then the call takes effect
            is_request = kind == 'send_bytes' and self.role == 'call'
            self._emit('conn_' + ('send' if is_request else 'recv' if kind == 'recv_bytes' else
                                  'close' if kind == 'close' else 'other'), ln, rk, hs)
            if is_request and not rk:
                self.sent = True
            return
        if _touches_shared(v):
            raise Unsupported('line %d: %s' % (ln, ast.unparse(v)))

    def _try(self, s, H, fn_end, depth):
        hs = list(reversed(H))
        after = self._label()
        fin_exc = self._label() if s.finalbody else None

        def fin(Hout):
            self._body(s.finalbody, Hout, fn_end, depth)
        Hf = H + ([['finally', fin_exc, None, fin]] if s.finalbody else [])
        handlers = []
        for h in s.handlers:
            if h.type is None:
                kinds = 'any'
            else:
                names = [h.type] if not isinstance(h.type, ast.Tuple) else h.type.elts
                kinds = []
                for n in names:
                    nm = n.id if isinstance(n, ast.Name) else ast.unparse(n)
                    kinds.append('any' if nm in ('Exception', 'BaseException') else KID.get(nm, -1))
                kinds = 'any' if 'any' in kinds else tuple(kinds)
            handlers.append(['except', self._label(), kinds, None])
        # handlers listed in source order; innermost-first resolution walks reversed(H), so push them in
        # reverse source order
        Hb = Hf + list(reversed(handlers))
        self._body(s.body, Hb, fn_end, depth)
        self._body(s.orelse, Hf, fn_end, depth)
        if s.finalbody:
            fin(H)
        self._emit('jump', None, after)
        for hnode, h in zip(s.handlers, handlers):
            self._place(h[1])
            self._body(hnode.body, Hf, fn_end, depth)
            if s.finalbody:
                fin(H)
            self._emit('jump', None, after)
        if s.finalbody:
            self._place(fin_exc)
            fin(H)
            self._emit('reraise', None, None, hs)
        self._place(after)


def exc_target(ins, kind):
    """static handler resolution -> (pc, set_pend) or None (uncaught)"""
    for h in ins.handlers:
        if h[0] == 'except':
            if h[2] == 'any' or kind in h[2]:
                return (h[1], False)
        else:
            return (h[1], True)
    return None


# ------------------------------------------------------------------------------------------ scenarios
class Scenario(object):
    """clients: list of role sequences, e.g. [['prepare'], ['call'], ['call', 'close', 'call']]"""

    def __init__(self, comp, clients):
        self.clients = clients
        self.progs = []         # per thread: list of Ins
        self.kind = []          # 'client' / 'starter'
        self.creator = []       # for starters: (client tid, ordinal)
        self.role_of = []       # per thread: list of (start_pc, role)
        for seq in clients:
            code = []
            roles = []
            for role in seq:
                part = comp.compile_role(role)
                base = len(code)
                roles.append((base, role))
                # drop the intermediate halt, relocate
                part = part[:-1]
                for ins in part:
                    code.append(_reloc(ins, base))
            code.append(Ins('halt'))
            for i, ins in enumerate(code):
                ins.idx = i
            self.progs.append(code)
            self.kind.append('client')
            self.creator.append(None)
            self.role_of.append(roles)
        self.nclients = len(clients)
        # starter slots: one per 'new' thread site per client
        self.slot = {}
        for tid in range(self.nclients):
            k = 0
            for ins in self.progs[tid]:
                if (ins.op == 'set_pt' and ins.a == ('new',)) or (ins.op == 'set_local' and ins.a[1] == ('new',)):
                    sid = len(self.progs)
                    self.slot[(tid, ins.idx)] = sid
                    self.progs.append(comp.compile_role('starter'))
                    self.kind.append('starter')
                    self.creator.append((tid, k))
                    self.role_of.append([(0, 'starter')])
                    k += 1
        self.n = len(self.progs)
        self.locals = sorted({v for p in self.progs for ins in p
                              for v in ([ins.a[0]] if ins.op == 'set_local' else [])} | {'_j'})
        self.bound = sum(1 for p in self.progs for i in p if i.op not in ('jump', 'halt')) + 1
        self.cuts = list(comp.cuts)

    def name(self):
        return ' || '.join('+'.join(s) for s in self.clients)

    def expected_launches(self):
        """sessions a sequential reading needs; only defined for scenarios whose closes are sequential"""
        return None


def _reloc(ins, base):
    def r(a, op):
        if op == 'branch':
            return (a[0], a[1] + base)
        if op == 'jump':
            return a + base
        return a
    n = Ins(ins.op, ins.line, r(ins.a, ins.op), [(h[0], h[1] + base, h[2]) for h in ins.handlers])
    return n


# ------------------------------------------------------------------------------------------ concrete semantics
class State(object):
    __slots__ = ('pc', 'pend', 'exc', 'alive', 'loc', 'pt', 'lock', 'conn', 'launches', 'sent', 'closed')

    def key(self):
        return (tuple(self.pc), tuple(self.pend), tuple(self.exc), tuple(self.alive),
                tuple(tuple(sorted(l.items())) for l in self.loc), self.pt, self.lock, self.conn,
                self.launches, tuple(self.sent), self.closed)

    def copy(self):
        s = State()
        s.pc, s.pend, s.exc, s.alive = list(self.pc), list(self.pend), list(self.exc), list(self.alive)
        s.loc = [dict(l) for l in self.loc]
        s.pt, s.lock, s.conn, s.launches, s.sent, s.closed = self.pt, self.lock, self.conn, self.launches, list(self.sent), self.closed
        return s


def initial(scn):
    s = State()
    s.pc = [res(p, 0) for p in scn.progs]
    s.pend = [0] * scn.n
    s.exc = [0] * scn.n
    s.alive = [k == 'client' for k in scn.kind]
    s.loc = [{} for _ in range(scn.n)]
    s.pt, s.lock, s.conn, s.launches, s.closed = -1, -1, False, 0, 0
    s.sent = [0] * scn.n
    return s


def done(scn, s, t):
    return scn.progs[t][s.pc[t]].op == 'halt'


def finished(scn, s, t):
    """thread object t has run to completion (started and halted)"""
    return s.alive[t] and done(scn, s, t)


def _ev(cond, s, t):
    k = cond[0]
    if k == 'not':
        return not _ev(cond[1], s, t)
    if k == 'and':
        return all(_ev(c, s, t) for c in cond[1:])
    if k == 'or':
        return any(_ev(c, s, t) for c in cond[1:])
    if k == 'pt':
        return s.pt != -1
    if k == 'local':
        return s.loc[t].get(cond[1], -1) != -1
    if k == 'hasconn':
        return s.conn
    if k == 'true':
        return True
    raise Unsupported('cond %r' % (cond,))


def _hval(h, s, t):
    return s.pt if h[0] == 'pt' else s.loc[t].get(h[1], -1)


def enabled(scn, s, t):
    if not s.alive[t] or done(scn, s, t):
        return False
    ins = scn.progs[t][s.pc[t]]
    if ins.op == 'acquire':
        return s.lock == -1
    if ins.op == 'join_wait':
        return finished(scn, s, s.loc[t]['_j'])
    return True


def step(scn, s, t):
    """one instruction of thread t; returns new state"""
    s = s.copy()
    code = scn.progs[t]
    ins = code[s.pc[t]]
    op = ins.op
    raised = 0
    nxt = s.pc[t] + 1
    if op == 'acquire':
        s.lock = t
    elif op == 'release':
        s.lock = -1
    elif op == 'branch':
        if not _ev(ins.a[0], s, t):
            nxt = ins.a[1]
    elif op == 'jump':
        nxt = ins.a
    elif op == 'nop':
        pass
    elif op == 'set_pt':
        if ins.a[0] == 'none':
            s.pt = -1
        elif ins.a[0] == 'new':
            s.pt = scn.slot[(t, ins.idx)]
        else:
            s.pt = s.loc[t].get(ins.a[1], -1)
    elif op == 'set_local':
        v, src = ins.a
        s.loc[t][v] = s.pt if src[0] == 'pt' else scn.slot[(t, ins.idx)]
    elif op == 'start':
        h = _hval(ins.a, s, t)
        if h == -1:
            raised = AE
        elif s.alive[h]:
            raised = RE
        else:
            s.alive[h] = True
    elif op == 'join_read':
        h = _hval(ins.a, s, t)
        if h == -1:
            raised = AE
        elif not s.alive[h]:
            raised = RE
        else:
            s.loc[t]['_j'] = h
    elif op == 'join_wait':
        pass
    elif op == 'need_conn':
        if not s.conn:
            raised = AE
    elif op in ('conn_send', 'conn_recv', 'conn_close', 'conn_other'):
        if not s.conn:
            raised = AE
        elif ins.a:
            raised = ins.a
        elif op == 'conn_send':
            s.sent[t] += 1
    elif op == 'del_conn':
        if not s.conn:
            raised = AE
        else:
            s.conn = False
            s.closed += 1
    elif op == 'raise':
        raised = ins.a
    elif op == 'reraise':
        raised = s.pend[t]
        s.pend[t] = 0
    elif op == 'launch':
        s.launches += 1
    elif op == 'connect':
        s.conn = True
    elif op == 'halt':
        return s
    else:
        raise Unsupported(op)
    if raised:
        tgt = exc_target(ins, raised)
        if tgt is None:
            s.exc[t] = raised
            nxt = len(code) - 1
            if s.lock == t:
                pass    # cannot happen: with-blocks release through their finally
        else:
            nxt = tgt[0]
            if tgt[1]:
                s.pend[t] = raised
    s.pc[t] = res(code, nxt)
    return s


def res(code, pc):
    """follow jump chains (jumps are not schedulable steps)"""
    while code[pc].op == 'jump':
        pc = code[pc].a
    return pc


def explore(scn, limit=2000000):
    """explicit-state enumeration (cross-check of the BMC and source of the states/transitions counts)"""
    s0 = initial(scn)
    seen = {s0.key(): None}
    stack = [s0]
    trans = 0
    finals = []
    while stack:
        s = stack.pop()
        en = [t for t in range(scn.n) if enabled(scn, s, t)]
        if not en:
            finals.append(s)
            continue
        for t in en:
            n = step(scn, s, t)
            trans += 1
            k = n.key()
            if k not in seen:
                seen[k] = (s.key(), t)
                stack.append(n)
                if len(seen) > limit:
                    raise Unsupported('state space too large')
    explore.last_states = None
    return len(seen), trans, finals


def reachable(scn, limit=200000):
    """all reachable concrete states (candidate invariant for inductive())"""
    s0 = initial(scn)
    seen = {s0.key(): s0}
    stack = [s0]
    while stack:
        s = stack.pop()
        for t in range(scn.n):
            if enabled(scn, s, t):
                n = step(scn, s, t)
                k = n.key()
                if k not in seen:
                    seen[k] = n
                    stack.append(n)
                    if len(seen) > limit:
                        raise Unsupported('state space too large')
    return list(seen.values())


def judge(scn, s):
    """property verdict on a final state (no thread enabled) -> list of problems"""
    bad = []
    for t in range(scn.n):
        if s.alive[t] and not done(scn, s, t):
            bad.append('deadlock: thread %d stuck at %r' % (t, scn.progs[t][s.pc[t]]))
        if s.exc[t]:
            bad.append('thread %d (%s) ends with %s' % (t, scn.kind[t] if scn.kind[t] == 'starter' else '+'.join(scn.clients[t]), KNAME[s.exc[t]]))
    ncalls = sum(seq.count('call') for seq in scn.clients)
    if sum(s.sent[:scn.nclients]) < ncalls and not any(s.exc):
        pass
    has_close = any('close' in seq for seq in scn.clients)
    has_start = any(r in ('prepare', 'call') for seq in scn.clients for r in seq)
    if not has_close:
        if has_start and not bad and s.launches != 1:
            bad.append('%d server processes launched' % s.launches)
        if has_start and not bad and not s.conn:
            bad.append('no connection after start-up')
    else:
        exp = expected_sequential(scn)
        if exp is not None and not bad:
            if s.launches != exp['launches']:
                bad.append('%d server processes launched, expected %d' % (s.launches, exp['launches']))
            if s.conn != exp['conn']:
                bad.append('connection %s at the end, expected %s' % ('present' if s.conn else 'absent',
                                                                      'present' if exp['conn'] else 'absent'))
            if s.closed != exp['closed']:
                bad.append('%d sessions closed, expected %d' % (s.closed, exp['closed']))
    for t in range(scn.nclients):
        if not s.exc[t] and done(scn, s, t) and s.sent[t] != scn.clients[t].count('call'):
            bad.append('thread %d: %d of %d calls sent' % (t, s.sent[t], scn.clients[t].count('call')))
    return bad


def expected_sequential(scn):
    """reference outcome for scenarios with close: only when a single client thread runs (sequential)"""
    if scn.nclients != 1:
        return None
    conn, launches, closed = False, 0, 0
    for r in scn.clients[0]:
        if r in ('prepare', 'call'):
            if not conn:
                conn = True
                launches += 1
        elif r == 'close':
            if conn:
                conn = False
                closed += 1
    return {'conn': conn, 'launches': launches, 'closed': closed}


def simulate(scn, schedule):
    """run a schedule (list of thread ids); returns (final state, events [(tid, line)], complete?)"""
    s = initial(scn)
    events = []
    for t in schedule:
        if t < 0:
            continue
        if not enabled(scn, s, t):
            return s, events, False
        ins = scn.progs[t][s.pc[t]]
        if ins.line is not None:
            events.append((t, ins.line, ins.op))
        s = step(scn, s, t)
    return s, events, True


def random_schedule(scn, rnd):
    s = initial(scn)
    sched = []
    while True:
        en = [t for t in range(scn.n) if enabled(scn, s, t)]
        if not en:
            return sched
        t = rnd.choice(en)
        sched.append(t)
        s = step(scn, s, t)


# ------------------------------------------------------------------------------------------ z3 BMC
class Enc(object):
    """z3 (QF_BV) encoding of the transition system of a scenario"""
    W = 8
    NONE = 255

    def __init__(self, scn):
        import z3
        self.z3 = z3
        self.scn = scn
        self.N = scn.n
        self.LV = scn.locals
        self.HALT = [len(p) - 1 for p in scn.progs]
        self.starters = [i for i in range(self.N) if scn.kind[i] == 'starter']
        self.ntrans = 0

    def bv(self, name):
        return self.z3.BitVec(name, self.W)

    def c(self, v):
        return self.z3.BitVecVal(self.NONE if v == -1 else v, self.W)

    def mk(self, k):
        z3, N, LV, bv = self.z3, self.N, self.LV, self.bv
        return dict(
            pc=[bv('pc%d_%s' % (i, k)) for i in range(N)],
            pend=[bv('pd%d_%s' % (i, k)) for i in range(N)],
            exc=[bv('ex%d_%s' % (i, k)) for i in range(N)],
            alive=[z3.Bool('al%d_%s' % (i, k)) for i in range(N)],
            loc=[{v: bv('lv%d_%s_%s' % (i, v, k)) for v in LV} for i in range(N)],
            sent=[bv('sn%d_%s' % (i, k)) for i in range(N)],
            pt=bv('pt_%s' % k), lock=bv('lk_%s' % k), conn=z3.Bool('cn_%s' % k),
            launches=bv('ln_%s' % k), closed=bv('cl_%s' % k))

    def is_state(self, sv, s):
        """sv (symbolic) equals concrete State s"""
        z3, c = self.z3, self.c
        eq = []
        for i in range(self.N):
            eq += [sv['pc'][i] == c(s.pc[i]), sv['pend'][i] == c(s.pend[i]), sv['exc'][i] == c(s.exc[i]),
                   sv['alive'][i] == bool(s.alive[i]), sv['sent'][i] == c(s.sent[i])]
            for v in self.LV:
                eq.append(sv['loc'][i][v] == c(s.loc[i].get(v, -1)))
        eq += [sv['pt'] == c(s.pt), sv['lock'] == c(s.lock), sv['conn'] == bool(s.conn),
               sv['launches'] == c(s.launches), sv['closed'] == c(s.closed)]
        return z3.And(*eq)

    def zdone(self, sv, i):
        return sv['pc'][i] == self.c(self.HALT[i])

    def zfinished_handle(self, sv, h):
        z3 = self.z3
        return z3.Or(*[z3.And(h == self.c(i), sv['alive'][i], self.zdone(sv, i)) for i in self.starters]) \
            if self.starters else z3.BoolVal(False)

    def zalive_handle(self, sv, h):
        z3 = self.z3
        return z3.Or(*[z3.And(h == self.c(i), sv['alive'][i]) for i in self.starters]) \
            if self.starters else z3.BoolVal(False)

    def zcond(self, cd, sv, t):
        z3, c = self.z3, self.c
        k = cd[0]
        if k == 'not':
            return z3.Not(self.zcond(cd[1], sv, t))
        if k == 'and':
            return z3.And(*[self.zcond(x, sv, t) for x in cd[1:]])
        if k == 'or':
            return z3.Or(*[self.zcond(x, sv, t) for x in cd[1:]])
        if k == 'pt':
            return sv['pt'] != c(-1)
        if k == 'local':
            return sv['loc'][t][cd[1]] != c(-1)
        if k == 'hasconn':
            return sv['conn']
        if k == 'true':
            return z3.BoolVal(True)
        raise Unsupported('cond')

    def zh(self, h, sv, t):
        return sv['pt'] if h[0] == 'pt' else sv['loc'][t][h[1]]

    def enabled_z(self, sv, t):
        z3, c = self.z3, self.c
        cases = []
        for pc, ins in enumerate(self.scn.progs[t]):
            if ins.op in ('halt', 'jump'):
                continue
            g = sv['pc'][t] == c(pc)
            if ins.op == 'acquire':
                g = z3.And(g, sv['lock'] == c(-1))
            elif ins.op == 'join_wait':
                g = z3.And(g, self.zfinished_handle(sv, sv['loc'][t]['_j']))
            cases.append(g)
        return z3.And(sv['alive'][t], z3.Or(*cases)) if cases else z3.BoolVal(False)

    def init(self, s0):
        z3, c, scn = self.z3, self.c, self.scn
        out = []
        for i in range(self.N):
            out += [s0['pc'][i] == c(res(scn.progs[i], 0)), s0['pend'][i] == c(0), s0['exc'][i] == c(0),
                    s0['sent'][i] == c(0), s0['alive'][i] == (scn.kind[i] == 'client')]
            for v in self.LV:
                out.append(s0['loc'][i][v] == c(-1))
        out += [s0['pt'] == c(-1), s0['lock'] == c(-1), z3.Not(s0['conn']), s0['launches'] == c(0), s0['closed'] == c(0)]
        return z3.And(*out)

    def trans(self, cur, nxt, sched, stutter=True):
        """one step: some enabled thread executes one line (sched = its id), or nobody is enabled and the
        state stutters (sched = NONE)"""
        z3, c, scn, N, LV, HALT = self.z3, self.c, self.scn, self.N, self.LV, self.HALT
        alts = []
        for t in range(N):
            code = scn.progs[t]

            def R(pc, code=code):
                return c(res(code, pc))
            for pc, ins in enumerate(code):
                op = ins.op
                if op in ('halt', 'jump'):
                    continue
                guard = [sched == c(t), cur['alive'][t], cur['pc'][t] == c(pc)]
                U = dict(pc=R(pc + 1), pend=cur['pend'][t], exc=cur['exc'][t], sent=cur['sent'][t],
                         pt=cur['pt'], lock=cur['lock'], conn=cur['conn'], launches=cur['launches'],
                         closed=cur['closed'], loc={v: cur['loc'][t][v] for v in LV}, spawn=None)
                raised = c(0)
                if op == 'acquire':
                    guard.append(cur['lock'] == c(-1))
                    U['lock'] = c(t)
                elif op == 'release':
                    U['lock'] = c(-1)
                elif op == 'branch':
                    U['pc'] = z3.If(self.zcond(ins.a[0], cur, t), R(pc + 1), R(ins.a[1]))
                elif op == 'nop':
                    pass
                elif op == 'set_pt':
                    U['pt'] = c(-1) if ins.a[0] == 'none' else \
                        c(scn.slot[(t, ins.idx)]) if ins.a[0] == 'new' else cur['loc'][t][ins.a[1]]
                elif op == 'set_local':
                    v, src = ins.a
                    U['loc'][v] = cur['pt'] if src[0] == 'pt' else c(scn.slot[(t, ins.idx)])
                elif op == 'start':
                    h = self.zh(ins.a, cur, t)
                    raised = z3.If(h == c(-1), c(AE), z3.If(self.zalive_handle(cur, h), c(RE), c(0)))
                    U['spawn'] = h
                elif op == 'join_read':
                    h = self.zh(ins.a, cur, t)
                    raised = z3.If(h == c(-1), c(AE), z3.If(z3.Not(self.zalive_handle(cur, h)), c(RE), c(0)))
                    U['loc']['_j'] = h
                elif op == 'join_wait':
                    guard.append(self.zfinished_handle(cur, cur['loc'][t]['_j']))
                elif op == 'need_conn':
                    raised = z3.If(cur['conn'], c(0), c(AE))
                elif op in ('conn_send', 'conn_recv', 'conn_close', 'conn_other'):
                    raised = z3.If(cur['conn'], c(ins.a or 0), c(AE))
                    if op == 'conn_send' and not ins.a:
                        U['sent'] = cur['sent'][t] + c(1)
                elif op == 'del_conn':
                    raised = z3.If(cur['conn'], c(0), c(AE))
                    U['conn'] = z3.BoolVal(False)
                    U['closed'] = cur['closed'] + c(1)
                elif op == 'raise':
                    raised = c(ins.a)
                elif op == 'reraise':
                    raised = cur['pend'][t]
                    U['pend'] = c(0)
                elif op == 'launch':
                    U['launches'] = cur['launches'] + c(1)
                elif op == 'connect':
                    U['conn'] = z3.BoolVal(True)
                else:
                    raise Unsupported(op)
                pc_exc, pend_exc, exc_exc = U['pc'], U['pend'], U['exc']
                for kind in (AE, TE, RE, XE):
                    tgt = exc_target(ins, kind)
                    is_k = raised == c(kind)
                    if tgt is None:
                        pc_exc = z3.If(is_k, c(HALT[t]), pc_exc)
                        exc_exc = z3.If(is_k, c(kind), exc_exc)
                    else:
                        pc_exc = z3.If(is_k, R(tgt[0]), pc_exc)
                        if tgt[1]:
                            pend_exc = z3.If(is_k, c(kind), pend_exc)
                no_exc = raised == c(0)
                eff = [nxt['pc'][t] == pc_exc, nxt['pend'][t] == pend_exc, nxt['exc'][t] == exc_exc,
                       nxt['sent'][t] == z3.If(no_exc, U['sent'], cur['sent'][t]),
                       nxt['pt'] == z3.If(no_exc, U['pt'], cur['pt']),
                       nxt['lock'] == z3.If(no_exc, U['lock'], cur['lock']),
                       nxt['conn'] == z3.If(no_exc, U['conn'], cur['conn']),
                       nxt['launches'] == z3.If(no_exc, U['launches'], cur['launches']),
                       nxt['closed'] == z3.If(no_exc, U['closed'], cur['closed'])]
                for v in LV:
                    eff.append(nxt['loc'][t][v] == z3.If(no_exc, U['loc'][v], cur['loc'][t][v]))
                for o in range(N):
                    if o != t:
                        eff += [nxt['pc'][o] == cur['pc'][o], nxt['pend'][o] == cur['pend'][o],
                                nxt['exc'][o] == cur['exc'][o], nxt['sent'][o] == cur['sent'][o]]
                        for v in LV:
                            eff.append(nxt['loc'][o][v] == cur['loc'][o][v])
                    if U['spawn'] is not None and scn.kind[o] == 'starter':
                        eff.append(nxt['alive'][o] == z3.Or(cur['alive'][o], z3.And(no_exc, U['spawn'] == c(o))))
                    else:
                        eff.append(nxt['alive'][o] == cur['alive'][o])
                alts.append(z3.And(*(guard + eff)))
                self.ntrans += 1
        if stutter:
            same = [sched == c(-1), self.nobody(cur)]
            for i in range(N):
                same += [nxt['pc'][i] == cur['pc'][i], nxt['pend'][i] == cur['pend'][i], nxt['exc'][i] == cur['exc'][i],
                         nxt['alive'][i] == cur['alive'][i], nxt['sent'][i] == cur['sent'][i]]
                for v in LV:
                    same.append(nxt['loc'][i][v] == cur['loc'][i][v])
            same += [nxt['pt'] == cur['pt'], nxt['lock'] == cur['lock'], nxt['conn'] == cur['conn'],
                     nxt['launches'] == cur['launches'], nxt['closed'] == cur['closed']]
            alts.append(z3.And(*same))
        return z3.Or(*alts)

    def nobody(self, sv):
        return self.z3.And(*[self.z3.Not(self.enabled_z(sv, t)) for t in range(self.N)])

    def bad_final(self, fin):
        """negated property on a state in which no thread can move"""
        z3, c, scn, N = self.z3, self.c, self.scn, self.N
        bad = []
        for t in range(N):
            bad.append(z3.And(fin['alive'][t], z3.Not(self.zdone(fin, t))))
            bad.append(fin['exc'][t] != c(0))
        clean = z3.And(*[fin['exc'][t] == c(0) for t in range(N)] +
                       [z3.Or(z3.Not(fin['alive'][t]), self.zdone(fin, t)) for t in range(N)])
        has_close = any('close' in seq for seq in scn.clients)
        has_start = any(r in ('prepare', 'call') for seq in scn.clients for r in seq)
        if not has_close and has_start:
            bad.append(z3.And(clean, z3.Or(fin['launches'] != c(1), z3.Not(fin['conn']))))
        exp = expected_sequential(scn) if has_close else None
        if exp is not None:
            bad.append(z3.And(clean, z3.Or(fin['launches'] != c(exp['launches']), fin['conn'] != exp['conn'],
                                           fin['closed'] != c(exp['closed']))))
        for t in range(scn.nclients):
            bad.append(z3.And(clean, fin['sent'][t] != c(scn.clients[t].count('call'))))
        return z3.Or(*bad)


def bmc(scn, timeout_ms=60000):
    """symbolic schedule of length bound; ('unsat'|'sat'|'unknown', schedule|None, stats)"""
    import z3
    E = Enc(scn)
    B = scn.bound
    sol = z3.SolverFor('QF_BV')
    sol.set('timeout', timeout_ms)
    st = [E.mk(k) for k in range(B + 1)]
    sched = [E.bv('sched_%d' % k) for k in range(B)]
    sol.add(E.init(st[0]))
    for k in range(B):
        sol.add(E.trans(st[k], st[k + 1], sched[k]))
    # all B steps consumed and B >= number of instructions: a thread not done at step B is blocked forever
    sol.add(E.nobody(st[B]))
    sol.add(E.bad_final(st[B]))
    t0 = time.time()
    r = str(sol.check())
    stats = {'bound': B, 'threads': scn.n, 'transition_cases': E.ntrans, 'solver_s': round(time.time() - t0, 3)}
    if r == 'sat':
        m = sol.model()
        schedule = [m.eval(x, model_completion=True).as_long() for x in sched]
        schedule = [-1 if x == E.NONE else x for x in schedule]
        return 'sat', schedule, stats
    return r, None, stats


def inductive(scn, states, timeout_ms=120000):
    """Unbounded proof by induction with a machine-generated candidate invariant R (the set of states the
    explicit enumerator reached; untrusted).  z3 decides, over the symbolic transition relation:
      (1) Init => R      (2) R(s) and T(s, s') => R(s')      (3) R(s) and nobody-enabled(s) => not bad(s)
    All three unsat-of-negation => the property holds on every schedule of any length."""
    import z3
    E = Enc(scn)
    cur, nxt = E.mk('a'), E.mk('b')
    sched = E.bv('sched')
    t0 = time.time()

    def Rf(sv):
        return z3.Or(*[E.is_state(sv, s) for s in states])
    out = {}
    for name, fs in (('init', [E.init(cur), z3.Not(Rf(cur))]),
                     ('step', [Rf(cur), E.trans(cur, nxt, sched, stutter=False), z3.Not(Rf(nxt))]),
                     ('safe', [Rf(cur), E.nobody(cur), E.bad_final(cur)])):
        sol = z3.SolverFor('QF_BV')
        sol.set('timeout', timeout_ms)
        sol.add(*fs)
        out[name] = str(sol.check())
        if out[name] == 'sat' and name == 'safe':
            m = sol.model()
            out['witness'] = 'reachable-set state violates the property'
    out['solver_s'] = round(time.time() - t0, 3)
    out['invariant_states'] = len(states)
    out['proved'] = all(out[k] == 'unsat' for k in ('init', 'step', 'safe'))
    return out


# ------------------------------------------------------------------------------------------ real replay
class _Controller(object):
    def __init__(self, events, ir_lines, path):
        self.cv = threading.Condition()
        self.events = list(events)          # [(tid, line, op)]
        self.pos = 0
        self.busy = None                    # tid that was granted a line and has not come back yet
        self.busy_since = 0
        self.ir_lines = ir_lines
        self.path = path
        self.unmatched = 0
        self.timeouts = 0
        self.tid_of = {}                    # threading ident -> model tid
        self.finished = set()
        self.aborted = False

    def next_for(self, tid):
        for i in range(self.pos, len(self.events)):
            if self.events[i][0] == tid:
                return i
        return None

    def arrive(self, tid, line):
        with self.cv:
            if self.busy == tid:
                self.busy = None
                self.cv.notify_all()
            if self.aborted or line not in self.ir_lines:
                return
            i = self.next_for(tid)
            if i is None or self.events[i][1] != line:
                self.unmatched += 1
                return
            deadline = time.time() + 4.0
            while not self.aborted:
                # head must be this event, and the previously granted thread must have completed its line
                if self.pos == i and (self.busy is None or self.busy == tid or
                                      time.time() - self.busy_since > 0.25 or self.busy in self.finished):
                    break
                # skip over events of threads that will never arrive (finished)
                if self.pos < i and self.events[self.pos][0] in self.finished:
                    self.pos += 1
                    continue
                if time.time() > deadline:
                    self.timeouts += 1
                    self.aborted = True
                    self.cv.notify_all()
                    return
                self.cv.wait(0.02)
            if self.aborted:
                return
            self.pos = i + 1
            self.busy = tid
            self.busy_since = time.time()
            self.cv.notify_all()

    def finish(self, tid):
        with self.cv:
            self.finished.add(tid)
            if self.busy == tid:
                self.busy = None
            self.cv.notify_all()


def replay_real(scn, schedule, repo_remote_path):
    """enforce the model schedule on real threads running the real Environment methods.
    Returns dict(launches, conn, exc={tid: class name}, sent, diverged...)"""
    import importlib
    import subprocess
    import multiprocessing.connection as mpc
    import supp.remote as rm
    import supp.umsgpack as um
    importlib.reload(um)
    importlib.reload(rm)
    s_final, events, complete = simulate(scn, schedule)
    ir_lines = {ins.line for p in scn.progs for ins in p if ins.line is not None}
    ctl = _Controller(events, ir_lines, rm.__file__)
    launches = []
    closed = []

    class FakeProc(object):
        pass

    def FakePopen(*a, **k):
        launches.append(a)
        return FakeProc()

    class FakeConn(object):
        def __init__(self):
            self.sent = []
            self.closed = False

        def send_bytes(self, b):
            if self.closed:
                raise OSError('closed')
            self.sent.append(b)

        def recv_bytes(self):
            return um.dumps(('ok', True))

        def close(self):
            self.closed = True
            closed.append(1)

        def poll(self, t=0):
            return True

    conns = []

    def FakeClient(addr, *a, **k):
        c = FakeConn()
        conns.append(c)
        return c

    tls = threading.local()
    starters_of = {}            # client tid -> count

    RealThread = threading.Thread

    class TThread(RealThread):
        def __init__(self, *a, **k):
            RealThread.__init__(self, *a, **k)
            ctid = getattr(tls, 'tid', None)
            k_ = starters_of.get(ctid, 0)
            starters_of[ctid] = k_ + 1
            self.model_tid = None
            for sid in range(scn.n):
                if scn.creator[sid] == (ctid, k_):
                    self.model_tid = sid

        def run(self):
            tls.tid = self.model_tid
            sys.settrace(tracer)
            try:
                RealThread.run(self)
            finally:
                sys.settrace(None)
                ctl.finish(self.model_tid)

    def local_tracer(frame, event, arg):
        if event == 'line':
            tid = getattr(tls, 'tid', None)
            if tid is not None:
                ctl.arrive(tid, frame.f_lineno)
        return local_tracer

    rpath = rm.__file__

    def tracer(frame, event, arg):
        if event == 'call' and frame.f_code.co_filename == rpath:
            return local_tracer
        return None

    env = rm.Environment()
    excs = {}
    answered = {}

    def client(tid, seq):
        tls.tid = tid
        sys.settrace(tracer)
        try:
            for role in seq:
                if role == 'prepare':
                    env.prepare()
                elif role == 'call':
                    env._call('lint', 'x = 1\n', 'f.py')
                    answered[tid] = answered.get(tid, 0) + 1
                elif role == 'close':
                    env.close()
        except Exception as e:       # noqa
            excs[tid] = type(e).__name__
        finally:
            sys.settrace(None)
            ctl.finish(tid)

    old = (subprocess.Popen, mpc.Client, rm.Thread, threading.excepthook)
    starter_exc = {}

    def hook(args):
        t = args.thread
        starter_exc[getattr(t, 'model_tid', None)] = args.exc_type.__name__
    subprocess.Popen, mpc.Client, rm.Thread = FakePopen, FakeClient, TThread
    threading.excepthook = hook
    try:
        ths = [RealThread(target=client, args=(i, seq)) for i, seq in enumerate(scn.clients)]
        for t in ths:
            t.start()
        for t in ths:
            t.join(15)
        stuck = [i for i, t in enumerate(ths) if t.is_alive()]
        # wait for starters
        deadline = time.time() + 5
        while time.time() < deadline and any(isinstance(t, TThread) and t.is_alive() for t in threading.enumerate()):
            time.sleep(0.01)
    finally:
        subprocess.Popen, mpc.Client, rm.Thread, threading.excepthook = old
    excs.update({k: v for k, v in starter_exc.items()})
    return {
        'launches': len(launches), 'conn': hasattr(env, 'conn'), 'exc': excs, 'answered': answered,
        'closed': len(closed), 'stuck': stuck, 'unmatched_line_events': ctl.unmatched,
        'schedule_enforced': (not ctl.aborted) and ctl.pos >= len([e for e in events]),
        'events': len(events), 'granted': ctl.pos,
        'model': {'launches': s_final.launches, 'conn': s_final.conn,
                  'exc': {t: KNAME[s_final.exc[t]] for t in range(scn.n) if s_final.exc[t]},
                  'closed': s_final.closed},
    }
