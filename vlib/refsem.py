"""Reference semantics of the shape DSL (vlib/family.py): a definitional interpreter written from the
language reference (name binding and resolution, compile-time locality, global/nonlocal, class-body lookup,
comprehension scopes, except-as unbinding, evaluation order, loop/try control flow), parameterised by a
decision oracle.  Identifiers are *classes* (ints): the caller has already decided which slots carry equal
identifiers (cls[slot]) and which classes are builtins.

It is a model and is treated as untrusted: vlib/pyoracle.py executes the same program, with the same
decisions, under real CPython and the two event logs must agree (checked on every run and on every
candidate before it is reported).

run(shape, cls, builtins, oracle) -> Log with
   events: [(read_slot, site)]  site = binding slot | 'BUILTIN' | 'UNBOUND'
   status: 'ok' | 'exc' (an exception escaped the module)
all_executions(shape, cls, builtins) -> list of (decision_vector, Log), exhaustive over decision vectors
(loops bounded at 2 trips).
"""
MAX_TRIPS = 2
MAX_DEPTH = 3
MAX_EXECUTIONS = 20000

UNBOUND = 'UNBOUND'
BUILTIN = 'BUILTIN'


class _Break(Exception):
    pass


class _Continue(Exception):
    pass


class _Return(Exception):
    pass


class _Raise(Exception):
    """a Python-level exception in the interpreted program (explicit raise or NameError)"""


class TooMany(Exception):
    pass


class Oracle(object):
    """replays a decision prefix, then takes choice 0; records arities for DFS"""

    def __init__(self, prefix):
        self.prefix = list(prefix)
        self.taken = []
        self.arity = []

    def choose(self, n):
        i = len(self.taken)
        c = self.prefix[i] if i < len(self.prefix) else 0
        self.taken.append(c)
        self.arity.append(n)
        return c


class Log(object):
    def __init__(self):
        self.events = []
        self.status = 'ok'


class Scope(object):
    """static (compile-time) facts about one scope body"""

    def __init__(self, kind, cls, body=None, params=None, comp=None):
        self.kind = kind
        self.locals = set()
        self.globals = set()
        self.nonlocals = set()
        if params:
            for k, b, d, a in params:
                self.locals.add(cls[b])
        if comp is not None:
            for bs, it, ifs in comp[2]:
                for b in bs:
                    self.locals.add(cls[b])
            # walrus inside a comprehension binds in the enclosing scope: not generated
        if body is not None:
            self._stmts(body, cls)
        self.locals -= self.globals
        self.locals -= self.nonlocals

    def _expr(self, e, cls):
        for a in e or []:
            if a[0] == 'w':
                self.locals.add(cls[a[1]])
                self._expr(a[2], cls)
            elif a[0] == 'callx':
                self._expr(a[1], cls)
            elif a[0] == 'lam':
                for k, b, d, ann in a[1]:
                    self._expr(d, cls)
                    self._expr(ann, cls)
            elif a[0] == 'comp':
                # only the first iterable is evaluated in this scope; walrus not generated inside
                self._expr(a[2][0][1], cls)

    def _stmts(self, body, cls):
        for s in body:
            k = s[0]
            if k == 'assign':
                for b in s[2]:
                    self.locals.add(cls[b])
                self._expr(s[3], cls)
            elif k == 'expr':
                self._expr(s[1], cls)
            elif k == 'if':
                self._expr(s[1], cls); self._stmts(s[2], cls); self._stmts(s[3], cls)
            elif k == 'for':
                for b in s[1]:
                    self.locals.add(cls[b])
                self._expr(s[2], cls); self._stmts(s[3], cls); self._stmts(s[4], cls)
            elif k == 'while':
                self._expr(s[1], cls); self._stmts(s[2], cls); self._stmts(s[3], cls)
            elif k == 'try':
                self._stmts(s[1], cls)
                for et, b, hb in s[2]:
                    self._expr(et, cls)
                    if b is not None:
                        self.locals.add(cls[b])
                    self._stmts(hb, cls)
                self._stmts(s[3], cls); self._stmts(s[4], cls)
            elif k == 'with':
                for e, b in s[1]:
                    self._expr(e, cls)
                    if b is not None:
                        self.locals.add(cls[b])
                self._stmts(s[2], cls)
            elif k == 'def':
                self.locals.add(cls[s[1]])
                for kind, b, d, ann in s[2]:
                    self._expr(d, cls); self._expr(ann, cls)
                for d in s[3]:
                    self._expr(d, cls)
                self._expr(s[4], cls)
            elif k == 'class':
                self.locals.add(cls[s[1]])
                for e in s[2] + s[3] + s[4]:
                    self._expr(e, cls)
            elif k == 'global':
                for d in s[1]:
                    self.globals.add(cls[d])
            elif k == 'nonlocal':
                for d in s[1]:
                    self.nonlocals.add(cls[d])
            elif k == 'return':
                self._expr(s[1], cls)
            elif k == 'import':
                if s[2] is not None:
                    self.locals.add(cls[s[2]])


class Frame(object):
    def __init__(self, scope, parent, sid):
        self.scope = scope
        self.parent = parent        # lexically enclosing frame
        self.vars = {}              # class -> site
        self.sid = sid              # identity of the scope node (for C05)


class Closure(object):
    def __init__(self, kind, node, frame, sid):
        self.kind, self.node, self.frame, self.sid = kind, node, frame, sid


class Interp(object):
    def __init__(self, shape, cls, builtins, oracle, modules=None, strict=True):
        self.strict = strict        # strict: a failing read raises NameError (CPython); relaxed: it is only logged
        self.shape = shape
        self.cls = cls
        self.builtins = set(builtins)
        self.oracle = oracle
        self.log = Log()
        self.depth = 0
        self.values = {}            # site -> Closure (for def / lambda bindings)
        self.modules = modules or {}
        self.site_scope = {}        # binding slot -> scope id it binds in (dynamic confirmation of C05 facts)
        self.read_owner = {}        # read slot -> set of owner scope ids observed

    # ------------------------------------------------------------------ names
    def owner(self, frame, c):
        """frame that owns name class c for code running in `frame` (compile-time resolution)"""
        sc = frame.scope
        if sc.kind == 'module':
            return frame
        if c in sc.globals:
            return self.module
        if c in sc.nonlocals:
            return self._enclosing_function_owner(frame.parent, c)
        if c in sc.locals:
            return frame
        return self._free(frame.parent, c)

    def _free(self, f, c):
        while f is not None and f.scope.kind != 'module':
            if f.scope.kind in ('func', 'comp'):
                if c in f.scope.globals:
                    return self.module
                if c in f.scope.locals:
                    return f
            f = f.parent
        return self.module

    def _enclosing_function_owner(self, f, c):
        while f is not None and f.scope.kind != 'module':
            if f.scope.kind in ('func', 'comp') and c in f.scope.locals:
                return f
            f = f.parent
        return None      # SyntaxError in real Python: shapes avoid it

    def read(self, frame, r):
        c = self.cls[r]
        sc = frame.scope
        if sc.kind == 'class' and c not in sc.globals and c not in sc.nonlocals:
            # LOAD_NAME / LOAD_CLASSDEREF: class namespace first, then the enclosing function cell or globals
            if c in frame.vars:
                site = frame.vars[c]
                own = frame
            else:
                # a name the class body itself binds is compiled to LOAD_NAME: class namespace, then
                # globals/builtins -- enclosing function cells are skipped; otherwise LOAD_CLASSDEREF
                own = self.module if c in sc.locals else self._free(frame.parent, c)
                site = own.vars.get(c, UNBOUND)
        else:
            own = self.owner(frame, c)
            if own is None:
                site = UNBOUND
            else:
                site = own.vars.get(c, UNBOUND)
        if site is UNBOUND and own is self.module and c in self.builtins:
            site = BUILTIN
        self.log.events.append((r, site))
        if own is not None:
            self.read_owner.setdefault(r, set()).add(own.sid if site is not BUILTIN else 'builtins')
        if site is UNBOUND and self.strict:
            raise _Raise('NameError')
        return site

    def bind(self, frame, b):
        c = self.cls[b]
        sc = frame.scope
        if sc.kind == 'class' and c not in sc.globals and c not in sc.nonlocals:
            own = frame
        else:
            own = self.owner(frame, c)
        if own is None:
            return
        own.vars[c] = b
        self.site_scope[b] = own.sid

    def unbind(self, frame, b):
        c = self.cls[b]
        sc = frame.scope
        own = frame if (sc.kind == 'class' and c not in sc.globals and c not in sc.nonlocals) else self.owner(frame, c)
        if own is not None:
            own.vars.pop(c, None)

    # ------------------------------------------------------------------ expressions
    def E(self, frame, e):
        last = None
        for a in e or []:
            last = self.atom(frame, a)
        return last

    def atom(self, frame, a):
        k = a[0]
        if k == 'r':
            return self.read(frame, a[1])
        if k == 'w':
            self.E(frame, a[2])
            # a walrus binds in the nearest enclosing non-comprehension scope
            f = frame
            while f.scope.kind == 'comp':
                f = f.parent
            self.bind(f, a[1])
            return a[1]
        if k == 'callx':
            return self.E(frame, a[1])
        if k == 'lam':
            for kind, b, d, ann in a[1]:
                self.E(frame, d)
            clo = Closure('lam', a, frame, ('lam', id(a)))
            if a[3]:
                self.call(clo)
            return clo
        if k == 'comp':
            return self.comp(frame, a)
        raise ValueError(a)

    def comp(self, frame, a):
        gens = a[2]
        self.E(frame, gens[0][1])               # first iterable: enclosing scope
        cf = Frame(Scope('comp', self.cls, comp=a), frame, ('comp', id(a)))

        def gen(i):
            if i == len(gens):
                if len(a) > 4:
                    self.E(cf, a[4])            # dict comprehension: key first
                self.E(cf, a[3])
                return
            bs, it, ifs = gens[i]
            if i > 0:
                self.E(cf, it)
            trips = self.oracle.choose(MAX_TRIPS + 1)
            for _ in range(trips):
                for b in bs:
                    self.bind(cf, b)
                ok = True
                for cnd in ifs:
                    self.E(cf, cnd)
                    if self.oracle.choose(2) == 0:
                        ok = False
                        break
                if ok:
                    gen(i + 1)
        gen(0)
        return None

    # ------------------------------------------------------------------ calls
    def call(self, clo):
        if isinstance(clo, str):
            return
        if not isinstance(clo, Closure) or self.depth >= MAX_DEPTH:
            return
        self.depth += 1
        try:
            if clo.kind == 'lam':
                node = clo.node
                f = Frame(Scope('func', self.cls, params=node[1]), clo.frame, clo.sid)
                for kind, b, d, ann in node[1]:
                    self.bind(f, b)
                # lambda body is an expression: walrus targets inside it are locals of the lambda
                sc = f.scope
                sc._expr(node[2], self.cls)
                self.E(f, node[2])
            else:
                node = clo.node
                f = Frame(Scope('func', self.cls, body=node[5], params=node[2]), clo.frame, clo.sid)
                for kind, b, d, ann in node[2]:
                    self.bind(f, b)
                try:
                    self.body(f, node[5])
                except _Return:
                    pass
        finally:
            self.depth -= 1

    # ------------------------------------------------------------------ statements
    def body(self, frame, stmts):
        for s in stmts:
            self.stmt(frame, s)

    def stmt(self, frame, s):
        k = s[0]
        if k == 'assign':
            self.E(frame, s[3])
            for b in s[2]:
                self.bind(frame, b)
        elif k == 'expr':
            self.E(frame, s[1])
        elif k == 'if':
            self.E(frame, s[1])
            if self.oracle.choose(2) == 1:
                self.body(frame, s[2])
            else:
                self.body(frame, s[3])
        elif k == 'for':
            self.E(frame, s[2])
            trips = self.oracle.choose(MAX_TRIPS + 1)
            broke = False
            for _ in range(trips):
                for b in s[1]:
                    self.bind(frame, b)
                try:
                    self.body(frame, s[3])
                except _Break:
                    broke = True
                    break
                except _Continue:
                    pass
            if not broke:
                self.body(frame, s[4])
        elif k == 'while':
            n = 0
            broke = False
            while True:
                self.E(frame, s[1])
                if n >= MAX_TRIPS or self.oracle.choose(2) == 0:
                    break
                n += 1
                try:
                    self.body(frame, s[2])
                except _Break:
                    broke = True
                    break
                except _Continue:
                    pass
            if not broke:
                self.body(frame, s[3])
        elif k == 'try':
            self._try(frame, s)
        elif k == 'with':
            for e, b in s[1]:
                self.E(frame, e)
                if b is not None:
                    self.bind(frame, b)
            self.body(frame, s[2])
        elif k == 'def':
            for d in s[3]:
                self.E(frame, d)
            for kind, b, d, ann in s[2]:
                if kind != 'kwonly':
                    self.E(frame, d)
            for kind, b, d, ann in s[2]:
                if kind == 'kwonly':
                    self.E(frame, d)
            for kind, b, d, ann in s[2]:
                self.E(frame, ann)
            self.E(frame, s[4])
            clo = Closure('def', s, frame, ('def', s[1]))
            self.bind(frame, s[1])
            self.values[s[1]] = clo
        elif k == 'class':
            for d in s[4]:
                self.E(frame, d)
            for e in s[2]:
                self.E(frame, e)
            for e in s[3]:
                self.E(frame, e)
            cf = Frame(Scope('class', self.cls, body=s[5]), frame, ('class', s[1]))
            self.body(cf, s[5])
            self.bind(frame, s[1])
        elif k in ('global', 'nonlocal', 'pass'):
            pass
        elif k == 'call':
            site = self.read(frame, s[1])
            clo = self.values.get(site) if not isinstance(site, str) else None
            self.call(clo)
        elif k == 'break':
            raise _Break()
        elif k == 'continue':
            raise _Continue()
        elif k == 'return':
            self.E(frame, s[1])
            raise _Return()
        elif k == 'raise':
            raise _Raise('Exception')
        elif k == 'import':
            kind, b, mod, member = s[1], s[2], s[3], s[4]
            if kind == 'star':
                for nm in self.modules.get(mod, ()):
                    pass        # star-imported names are fixed strings outside the slot alphabet
            else:
                self.bind(frame, b)
        else:
            raise ValueError(k)

    def _try(self, frame, s):
        body, handlers, orelse, final = s[1], s[2], s[3], s[4]
        try:
            try:
                # any try body with handlers may raise before its first or after its last statement
                d = self.oracle.choose(3) if handlers else 0
                if d == 1:
                    raise _Raise('Exception')
                self.body(frame, body)
                if d == 2:
                    raise _Raise('Exception')
            except _Raise:
                if not handlers:
                    raise
                # every generated handler catches Exception; its type expression is evaluated first
                et, b, hb = handlers[0]
                self.E(frame, et)
                if b is not None:
                    self.bind(frame, b)
                try:
                    self.body(frame, hb)
                finally:
                    if b is not None:
                        self.unbind(frame, b)
            else:
                self.body(frame, orelse)
        finally:
            if final:
                self.body(frame, final)

    def run(self):
        self.module = Frame(Scope('module', self.cls, body=self.shape.body), None, ('module',))
        try:
            self.body(self.module, self.shape.body)
        except _Raise:
            self.log.status = 'exc'
        except (_Break, _Continue, _Return):
            self.log.status = 'exc'
        return self.log


def run(shape, cls, builtins, prefix, modules=None, strict=True):
    o = Oracle(prefix)
    it = Interp(shape, cls, builtins, o, modules, strict)
    log = it.run()
    return log, o, it


def all_executions(shape, cls, builtins, modules=None, limit=MAX_EXECUTIONS, strict=True):
    """DFS over the decision tree: every decision vector exactly once"""
    out = []
    prefix = []
    while True:
        log, o, it = run(shape, cls, builtins, prefix, modules, strict)
        out.append((list(o.taken), log, it))
        if len(out) > limit:
            raise TooMany()
        # next vector: increment the last decision that can be incremented
        taken, ar = o.taken, o.arity
        i = len(taken) - 1
        while i >= 0 and taken[i] + 1 >= ar[i]:
            i -= 1
        if i < 0:
            return out
        prefix = taken[:i] + [taken[i] + 1]


def summarize(shape, cls, builtins, modules=None, strict=False):
    """per read: set of sites over all executions (the collecting result used by C01-C03),
    plus owner scopes (C05) and whether the read was ever executed"""
    R = {r: set() for r in shape.reads()}
    owners = {r: set() for r in shape.reads()}
    site_scope = {}
    execs = all_executions(shape, cls, builtins, modules, strict=strict)
    for vec, log, it in execs:
        for r, site in log.events:
            R[r].add(site)
        for r, s in it.read_owner.items():
            owners[r] |= s
        site_scope.update(it.site_scope)
    return R, owners, site_scope, len(execs)
