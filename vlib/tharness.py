"""T-mode harness: the real supp analysis (nast.extract, Flow.names_at, scopes) executed by CrossHair on a
parsed template tree whose identifiers are *symbolic strings*, with supp's dict/set displays rewritten to
equality-only containers (vlib/symcont.py) so that one path = one equality pattern of identifiers.

Reference side: vlib/refsem.py over all decision vectors (exhaustive DFS), run on the concrete pattern the
path has fixed.  Replay: real text through the real parser and the untransformed supp, CPython oracle.
"""
import ast

from vlib import family, refsem, shapes as shapes_mod

BKEY_LEN = None     # set by setup(): the builtin-table key has the same length as the identifiers
IDLEN = 2


def shape_by_name(name):
    for s in all_shapes():
        if s.name == name:
            return s
    raise KeyError(name)


_ALL = None


def all_shapes():
    global _ALL
    if _ALL is None:
        _ALL = shapes_mod.named() + shapes_mod.enumerate_small()
    return _ALL


# ------------------------------------------------------------------------------------- supp side
class SUndef(object):
    """stands in for supp.name.UndefinedName (a str subclass, which CrossHair would have to realise)"""
    location = (0, 0)

    def __init__(self, n):
        self.name = n

    def __lt__(self, o):
        return True

    def __eq__(self, o):
        return isinstance(o, SUndef)

    def __ne__(self, o):
        return not isinstance(o, SUndef)

    __hash__ = None

    def __repr__(self):
        return 'SUndef'


BKEY = 'zz'
# C01/C02 claim "some real execution reads this": executions are CPython's (a failing read raises NameError).
# C03/C05 compare against every structural path (a failing read does not prune what follows), which is what a
# path-insensitive static analysis can be exact about.
STRICT = {'C01': True, 'C02': True, 'C03': False, 'C05': False, 'C04': False, 'C13': False, 'C17': False}


def setup_symbolic():
    """transformed supp + stubs; call once per harness process before anything imports supp"""
    from vlib import symcont
    symcont.install()
    import supp.scope
    import supp.name
    supp.scope.UndefinedName = SUndef
    supp.name.UndefinedName = SUndef
    supp.scope.SourceScope.find_id_loc = lambda self, id, start, shift=0, delimeters=True, **kw: start
    supp.scope.builtin_scope.__dict__['names'] = symcont.SymDict(
        [(BKEY, supp.name.RuntimeName(BKEY, len, True))])


def setup_native():
    import supp.scope       # untransformed
    return supp.scope


def analyse(tpl, names_by_slot, undef_cls, real_text=None, order=None):
    """run the real extractor on the template tree with identifiers substituted; per read slot:
       dict(flow=bool, visible=bool, sites=set(slots), undef=bool, builtin=bool, scopes={site: scope id})"""
    from supp.util import Source
    from supp.scope import SourceScope, FuncScope, ClassScope
    from supp.nast import extract
    from supp.name import MultiName
    tree = tpl.substitute(names_by_slot)
    src = Source(tpl.text if real_text is None else real_text, 'shape.py')
    src.__dict__['tree'] = tree
    scope = SourceScope(src)
    extract(tree, scope.flow)
    pos2slot = {}
    for s in tpl.shape.binds():
        pos2slot.setdefault(tpl.pos[s], []).append(s)
        if s in getattr(tpl, 'extra_pos', {}):
            pos2slot.setdefault(tpl.extra_pos[s], []).append(s)

    def slot_of(n):
        if getattr(n, 'location', None) == (0, 0) and not hasattr(n, 'declared_at'):
            return 'BUILTIN'
        c = pos2slot.get(tuple(n.declared_at))
        if not c:
            return ('?', tuple(n.declared_at))
        return c[0]

    def scope_id(n):
        sc = getattr(n, 'scope', None)
        if sc is None:
            return None
        if isinstance(sc, FuncScope):
            if sc.name == 'lambda':
                return ('lam',)
            c = pos2slot.get(tuple(sc.declared_at))
            return ('def', c[0] if c else None)
        if isinstance(sc, ClassScope):
            c = pos2slot.get(tuple(sc.declared_at))
            return ('class', c[0] if c else None)
        return ('module',)

    out = {}
    for r in (tpl.shape.reads() if order is None else order):
        node = tpl.read_node[r]
        res = dict(flow=hasattr(node, 'flow'), visible=False, sites=set(), undef=False, builtin=False, scopes={})
        if res['flow']:
            v = node.flow.names_at((node.lineno, node.col_offset)).get(node.id)
            if v is not None:
                res['visible'] = True
                alts = v.alt_names if isinstance(v, MultiName) else [v]
                for a in alts:
                    if isinstance(a, undef_cls):
                        res['undef'] = True
                        continue
                    s = slot_of(a)
                    if s == 'BUILTIN':
                        res['builtin'] = True
                    else:
                        res['sites'].add(s)
                        res['scopes'][s] = scope_id(a)
        out[r] = res
    return out


# ------------------------------------------------------------------------------------- judgement
def compiles(shape, cls, builtins):
    naming = canon(shape, cls, builtins)
    try:
        compile(family.render(shape, naming), 'shape.py', 'exec')
        return True
    except SyntaxError:
        return False


def canon(shape, cls, builtins):
    return {s: ('len' if cls[s] in builtins else 'n%s' % chr(ord('a') + cls[s])) for s in shape.slots}


def restricted_reads(shape):
    """reads for which the site-level clauses (C02/C03) apply: the property restricts them to reads whose
    bindings are in the same scope body; computed dynamically by refsem (owner scope == reading scope)."""
    return None


def judge(prop, shape, cls, builtins, supp_res, ref):
    """-> list of problems (strings). ref = (R, owners, site_scope, nexec) from refsem.summarize"""
    R, owners, site_scope, nexec = ref
    bad = []
    if not in_domain(prop, shape):
        return bad
    skip = skipped_reads(prop, shape, cls)
    for r in shape.reads():
        if r in skip:
            continue
        s = supp_res[r]
        sites = R[r]
        if not sites:
            continue        # read never executed on any path
        real_sites = {x for x in sites if not isinstance(x, str)}
        can_succeed = bool(real_sites) or refsem.BUILTIN in sites
        if prop == 'C01':
            if can_succeed and not s['flow']:
                bad.append('read r%d succeeds at run time but the extractor never visited it (lint: E42)' % r)
            elif can_succeed and not s['visible']:
                bad.append('read r%d succeeds at run time (binding %s) but is not visible (lint: E02)'
                           % (r, sorted(real_sites) or 'builtin'))
        elif prop in ('C02', 'C03'):
            listed = {x for x in s['sites'] if not isinstance(x, tuple)} if prop == 'C03' else set()
            same_scope = _same_scope_read(shape, r, real_sites | listed, owners, site_scope)
            if not same_scope:
                continue
            if prop == 'C02':
                missing = real_sites - s['sites']
                if missing and s['flow']:
                    bad.append('read r%d can obtain the value bound at %s, supp lists %s'
                               % (r, sorted(missing), sorted(s['sites'], key=str)))
            else:
                if not s['flow']:
                    continue
                phantom = {x for x in s['sites'] if not isinstance(x, tuple)} - real_sites
                if phantom:
                    bad.append('read r%d: supp lists binding %s which reaches it on no path (reaching: %s)'
                               % (r, sorted(phantom), sorted(real_sites)))
                may_unbound = refsem.UNBOUND in sites
                if s['visible'] and real_sites and s['undef'] != may_unbound and not s['builtin'] \
                        and refsem.BUILTIN not in sites:
                    bad.append('read r%d: possibly-undefined is %s in supp, %s at run time'
                               % (r, s['undef'], may_unbound))
                if not real_sites and refsem.BUILTIN not in sites and s['visible']:
                    bad.append('read r%d is unbound on every path but supp shows it as defined' % r)
        elif prop == 'C05':
            st = static_info(shape)
            rs = st['read_scope'].get(r)
            if rs is not None and rs[0] == 'class' and any(
                    cls[b] == cls[r] and st['bind_scope'].get(b) == rs for b in shape.binds()):
                continue        # reads made directly in a class body: only for names the class does not bind
            ref_owner = {_enclosing(st, o) for o in owners.get(r, set())}
            site_scope = {k: _enclosing(st, v) for k, v in site_scope.items()}
            for site, sc in s['scopes'].items():
                if isinstance(site, tuple):
                    continue
                want = site_scope.get(site)
                if want is not None and sc is not None and _scope_key(want) != _scope_key(sc):
                    bad.append('read r%d resolved to binding %d in scope %s, CPython puts that binding in %s'
                               % (r, site, sc, want))
            if ref_owner and s['visible']:
                allowed = {_scope_key(o) for o in ref_owner}
                for site, sc in s['scopes'].items():
                    bs = st['bind_scope'].get(site)
                    if bs is not None and bs[0] == 'comp':
                        continue    # comprehension targets are compared as bindings of the enclosing scope only
                    if sc is not None and _scope_key(sc) not in allowed and 'builtins' not in ref_owner:
                        bad.append('read r%d belongs to scope(s) %s at run time, supp resolves it in %s (binding %s)'
                                   % (r, sorted(allowed, key=str), sc, site))
    return bad


def _enclosing(st, sid):
    """comprehension targets are compared as bindings of the enclosing scope"""
    while sid is not None and sid != 'builtins' and sid[0] == 'comp':
        sid = st['comp_outer'].get(sid[1])
    return sid


def _scope_key(sid):
    if sid is None:
        return None
    if sid[0] == 'comp':
        return ('comp',)
    if sid[0] == 'lam':
        return ('lam',)
    return tuple(sid)


def _same_scope_read(shape, r, real_sites, owners, site_scope):
    """C02/C03 restrict to reads whose bindings are (syntactically) in the body that contains the read,
    and that body must also be the scope owning the name at run time (no global/nonlocal redirection)"""
    st = static_info(shape)
    rs = st['read_scope'].get(r)
    own = owners.get(r, set())
    if len(own) != 1 or next(iter(own)) == 'builtins':
        return False
    if _scope_key(next(iter(own))) != _scope_key(rs):
        return False
    return all(_scope_key(st['bind_scope'].get(b)) == _scope_key(rs) and
               _scope_key(site_scope.get(b, rs)) == _scope_key(rs) for b in real_sites)


_STATIC = {}


def static_info(shape):
    """syntactic facts: scope containing each read / binding; construct membership used by the
    per-property domain restrictions"""
    if shape.name in _STATIC:
        return _STATIC[shape.name]
    info = dict(comp_outer={}, read_scope={}, bind_scope={}, comp_targets={}, except_names={}, def_header_reads={},
                stmt_targets_of_comp_reads={}, has_break=False, has_continue=False, has_raise=False,
                has_return=False)

    def E(e, sid, ctx):
        for a in e or []:
            if a[0] == 'r':
                info['read_scope'][a[1]] = sid
                for c in ctx.get('comps', ()):
                    info['comp_targets'].setdefault(c, ([], set()))[1].add(a[1])
                for h in ctx.get('handlers', ()):
                    info['except_names'].setdefault(h, set()).add(a[1])
                if ctx.get('defhdr') is not None:
                    info['def_header_reads'].setdefault(ctx['defhdr'], set()).add(a[1])
                if ctx.get('comps') and ctx.get('stmt_targets'):
                    info['stmt_targets_of_comp_reads'][a[1]] = list(ctx['stmt_targets'])
            elif a[0] == 'callx':
                E(a[1], sid, ctx)
            elif a[0] == 'w':
                info['bind_scope'][a[1]] = sid if sid[0] != 'comp' else ctx.get('outer_sid', sid)
                E(a[2], sid, ctx)
            elif a[0] == 'lam':
                for k, b, d, ann in a[1]:
                    E(d, sid, ctx); E(ann, sid, ctx)
                    info['bind_scope'][b] = ('lam', id(a))
                E(a[2], ('lam', id(a)), ctx)
            elif a[0] == 'comp':
                cs = ('comp', id(a))
                cid = id(a)
                info.setdefault('comp_outer', {})[cid] = sid
                tg = []
                for bs, it, ifs in a[2]:
                    for b in bs:
                        info['bind_scope'][b] = cs
                        tg.append(b)
                info['comp_targets'][cid] = (tg, set())
                c2 = dict(ctx, comps=tuple(ctx.get('comps', ())) + (cid,), outer_sid=sid)
                E(a[2][0][1], sid, c2)
                for i, (bs, it, ifs) in enumerate(a[2]):
                    if i:
                        E(it, cs, c2)
                    for c in ifs:
                        E(c, cs, c2)
                E(a[3], cs, c2)
                if len(a) > 4:
                    E(a[4], cs, c2)

    def S(body, sid, ctx):
        for s in body:
            k = s[0]
            if k == 'assign':
                for b in s[2]:
                    info['bind_scope'][b] = sid
                E(s[3], sid, dict(ctx, stmt_targets=s[2]))
            elif k == 'expr':
                E(s[1], sid, ctx)
            elif k == 'if':
                E(s[1], sid, ctx); S(s[2], sid, ctx); S(s[3], sid, ctx)
            elif k == 'for':
                for b in s[1]:
                    info['bind_scope'][b] = sid
                E(s[2], sid, ctx); S(s[3], sid, ctx); S(s[4], sid, ctx)
            elif k == 'while':
                E(s[1], sid, ctx); S(s[2], sid, ctx); S(s[3], sid, ctx)
            elif k == 'try':
                S(s[1], sid, ctx)
                for et, b, hb in s[2]:
                    E(et, sid, ctx)
                    if b is not None:
                        info['bind_scope'][b] = sid
                        info['except_names'].setdefault(b, set())
                        S(hb, sid, dict(ctx, handlers=tuple(ctx.get('handlers', ())) + (b,)))
                    else:
                        S(hb, sid, ctx)
                S(s[3], sid, ctx); S(s[4], sid, ctx)
            elif k == 'with':
                for e, b in s[1]:
                    E(e, sid, ctx)
                    if b is not None:
                        info['bind_scope'][b] = sid
                S(s[2], sid, ctx)
            elif k == 'def':
                info['bind_scope'][s[1]] = sid
                hc = dict(ctx, defhdr=s[1])
                for d in s[3]:
                    E(d, sid, hc)
                for kind, b, d, ann in s[2]:
                    E(d, sid, hc); E(ann, sid, hc)
                    info['bind_scope'][b] = ('def', s[1])
                E(s[4], sid, hc)
                S(s[5], ('def', s[1]), {})
            elif k == 'class':
                info['bind_scope'][s[1]] = sid
                for e in s[2] + s[3] + s[4]:
                    E(e, sid, ctx)
                S(s[5], ('class', s[1]), {})
            elif k == 'call':
                info['read_scope'][s[1]] = sid
                for h in ctx.get('handlers', ()):
                    info['except_names'].setdefault(h, set()).add(s[1])
            elif k == 'return':
                info['has_return'] = True
                E(s[1], sid, ctx)
            elif k == 'break':
                info['has_break'] = True
            elif k == 'continue':
                info['has_continue'] = True
            elif k == 'raise':
                info['has_raise'] = True
            elif k == 'import':
                if s[2] is not None:
                    info['bind_scope'][s[2]] = sid
    S(shape.body, ('module',), {})
    _STATIC[shape.name] = info
    return info


def in_domain(prop, shape):
    st = static_info(shape)
    if prop in ('C02', 'C03'):
        # loops left only by exhaustion; exceptions only at the first/last statement of a try body
        return not (st['has_break'] or st['has_continue'] or st['has_raise'])
    return True


def skipped_reads(prop, shape, cls):
    """reads the property's quantifier excludes for this naming"""
    st = static_info(shape)
    skip = set()
    if prop == 'C02' or prop == 'C03':
        # comprehension bodies do not read a name the enclosing statement rebinds
        for r, targets in st['stmt_targets_of_comp_reads'].items():
            if any(cls[t] == cls[r] for t in targets):
                skip.add(r)
    if prop == 'C03':
        for cid, (targets, inside) in st['comp_targets'].items():
            for r in shape.reads():
                if r not in inside and any(cls[t] == cls[r] for t in targets):
                    skip.add(r)
        for b, inside in st['except_names'].items():
            for r in shape.reads():
                if r not in inside and cls[b] == cls[r]:
                    skip.add(r)
        for d, rs in st['def_header_reads'].items():
            for r in rs:
                if cls[r] == cls[d]:
                    skip.add(r)
    return skip


def _read_scope(shape, r):
    """static scope id of the code containing read r"""
    found = []

    def E(e, sid):
        for a in e or []:
            if a[0] == 'r' and a[1] == r:
                found.append(sid)
            elif a[0] == 'w':
                E(a[2], sid)
            elif a[0] == 'lam':
                for k, b, d, ann in a[1]:
                    E(d, sid); E(ann, sid)
                E(a[2], ('lam', id(a)))
            elif a[0] == 'comp':
                E(a[2][0][1], sid)
                cs = ('comp', id(a))
                for i, (bs, it, ifs) in enumerate(a[2]):
                    if i:
                        E(it, cs)
                    for c in ifs:
                        E(c, cs)
                E(a[3], cs)
                if len(a) > 4:
                    E(a[4], cs)

    def S(body, sid):
        for s in body:
            k = s[0]
            if k == 'assign':
                E(s[3], sid)
            elif k == 'expr':
                E(s[1], sid)
            elif k == 'if':
                E(s[1], sid); S(s[2], sid); S(s[3], sid)
            elif k == 'for':
                E(s[2], sid); S(s[3], sid); S(s[4], sid)
            elif k == 'while':
                E(s[1], sid); S(s[2], sid); S(s[3], sid)
            elif k == 'try':
                S(s[1], sid)
                for et, b, hb in s[2]:
                    E(et, sid); S(hb, sid)
                S(s[3], sid); S(s[4], sid)
            elif k == 'with':
                for e, b in s[1]:
                    E(e, sid)
                S(s[2], sid)
            elif k == 'def':
                for d in s[3]:
                    E(d, sid)
                for kind, b, d, ann in s[2]:
                    E(d, sid); E(ann, sid)
                E(s[4], sid)
                S(s[5], ('def', s[1]))
            elif k == 'class':
                for e in s[2] + s[3] + s[4]:
                    E(e, sid)
                S(s[5], ('class', s[1]))
            elif k == 'call':
                if s[1] == r:
                    found.append(sid)
            elif k == 'return':
                E(s[1], sid)
    S(shape.body, ('module',))
    return found[0] if found else None


# ------------------------------------------------------------------------------------- harness body
class TH(object):
    def __init__(self, shape_name, prop):
        self.shape = shape_by_name(shape_name)
        self.prop = prop
        self.slots = self.shape.slots
        self.nvars = len(self.shape.groups)

    def pattern(self, names):
        """decide the equality pattern of the symbolic identifiers (this is where paths fork);
        names: one symbolic string per identifier variable (tie group)"""
        vcls = []
        reps = []
        for i in range(self.nvars):
            c = -1
            for j, ri in enumerate(reps):
                if names[i] == names[ri]:
                    c = j
                    break
            if c < 0:
                c = len(reps)
                reps.append(i)
            vcls.append(c)
        cls = {s: vcls[self.shape.var_of[s]] for s in self.slots}
        builtins = [j for j, ri in enumerate(reps) if names[ri] == BKEY]
        return cls, builtins

    reached = False

    def run(self, names):
        from crosshair.tracers import NoTracing
        self.reached = False
        cls, builtins = self.pattern(names)
        with NoTracing():
            if not compiles(self.shape, cls, builtins):
                return True
            try:
                ref = refsem.summarize(self.shape, cls, builtins, strict=STRICT[self.prop])
            except refsem.TooMany:
                return True
            tpl = family.Template(self.shape)
        res = analyse(tpl, {s: names[self.shape.var_of[s]] for s in self.slots}, SUndef)
        with NoTracing():
            self.reached = True
            bad = judge(self.prop, self.shape, cls, builtins, res, ref)
            if bad and self.is_known(cls, builtins, bad):
                return True
            return not bad

    def run_order(self, names, o):
        """C04 harness body: o selects a permutation of the reads (explicit branches keep it concrete)"""
        from crosshair.tracers import NoTracing
        self.reached = False
        cls, builtins = self.pattern(names)
        P = perms(self.shape.reads())
        order = None
        for i in range(len(P)):
            if o == i:
                order = P[i]
                break
        if order is None:
            return True
        with NoTracing():
            if not compiles(self.shape, cls, builtins):
                return True
        naming = {s: names[self.shape.var_of[s]] for s in self.slots}
        bad = order_problems(self.shape, lambda: family.Template(self.shape), naming, SUndef, order)
        self.reached = True
        return not bad

    def is_known(self, cls, builtins, bad):
        return all(known_problem(self.prop, self.shape, cls, b) for b in bad)


_KNOWN = None


def known_entries(prop):
    global _KNOWN
    if _KNOWN is None:
        import json
        import os
        p = os.path.join(os.path.dirname(os.path.dirname(os.path.abspath(__file__))), 'known_findings.json')
        try:
            _KNOWN = [e for e in json.load(open(p))['findings'] if e.get('status') == 'known']
        except (OSError, ValueError):
            _KNOWN = []
    return [e for e in _KNOWN if e['property'] == prop]


def known_problem(prop, shape, cls, problem):
    """is this problem (a string produced by judge) an instance of a listed finding?  Listed findings are
    identified by a structural predicate on the read involved, never by property alone."""
    import re
    m = re.match(r'read r(\d+)', problem)
    if not m:
        return None
    r = int(m.group(1))
    st = static_info(shape)
    for e in known_entries(prop):
        k = e.get('match', {}).get('kind')
        if k == 'comp_body_in_class':
            # read inside a comprehension (not its first iterable) written directly in a class body,
            # resolved by supp to a class-level binding
            rs = st['read_scope'].get(r)
            if rs is not None and rs[0] == 'comp' and (st['comp_outer'].get(rs[1]) or ('x',))[0] == 'class' \
                    and "('class'," in problem:
                return e['what']
    return None


def freeze(res):
    return (res['flow'], res['visible'], tuple(sorted(res['sites'], key=str)), res['undef'], res['builtin'])


def order_problems(shape, mk_template, naming, undef_cls, order, real_text=None):
    """C04: results after querying the reads in `order` on one analysis state vs each read on a fresh one"""
    shared = analyse(mk_template(), naming, undef_cls, real_text=real_text, order=order)
    bad = []
    for r in order:
        fresh = analyse(mk_template(), naming, undef_cls, real_text=real_text, order=[r])
        if freeze(fresh[r]) != freeze(shared[r]):
            bad.append('read r%d: queried after %s it yields %s, on a fresh analysis %s'
                       % (r, [x for x in order[:order.index(r)]], freeze(shared[r]), freeze(fresh[r])))
    return bad


def perms(reads):
    import itertools
    return [list(p) for p in itertools.permutations(reads)]


def native_order_case(shape, cls, builtins, order):
    import supp.name
    naming = canon(shape, cls, builtins)
    text = family.render(shape, naming)
    bad = order_problems(shape, lambda: _RealTemplate(shape, naming), naming, supp.name.UndefinedName, order, real_text=text)
    # the same through the public API: lint (walks all reads of one analysis in AST order) vs a fresh query
    from supp.linter import lint
    from supp.project import Project
    res = lint(Project(['/nonexistent-root']), text, 'shape.py')
    flagged = {(r[2], r[3]) for r in res if r[0] == 'E02'}
    real = _RealTemplate(shape, naming)
    for r in shape.reads():
        node = real.read_node[r]
        fresh = analyse(_RealTemplate(shape, naming), naming, supp.name.UndefinedName, real_text=text, order=[r])[r]
        if ((node.lineno, node.col_offset) in flagged) != (fresh['flow'] and not fresh['visible']):
            bad.append('read r%d: lint says %s, a fresh query says %s' % (
                r, 'E02' if (node.lineno, node.col_offset) in flagged else 'defined',
                'visible' if fresh['visible'] else 'not visible'))
    return dict(text=text, problems=bad, naming=naming)


def native_case(shape, cls, builtins, prop):
    """replay: real text, real parser, untransformed supp; reference re-validated against CPython"""
    from vlib import pyoracle
    import supp.name
    naming = canon(shape, cls, builtins)
    text = family.render(shape, naming)
    tpl = family.Template(shape)
    # real parse of the real text (not the template): positions must coincide with the canonical ones,
    # which holds when all identifiers have the same length as the placeholders' ... they do not, so
    # re-derive positions from a template built on the real naming
    real = _RealTemplate(shape, naming)
    res = analyse(real, naming, supp.name.UndefinedName, real_text=text)
    n, disagreements = pyoracle.validate_refsem(shape, naming, cls, builtins)
    ref = refsem.summarize(shape, cls, builtins, strict=STRICT[prop])
    bad = judge(prop, shape, cls, builtins, res, ref)
    known = [k for k in (known_problem(prop, shape, cls, b) for b in bad) if k]
    unlisted = [b for b in bad if not known_problem(prop, shape, cls, b)]
    return dict(text=text, problems=unlisted, known=known, all_problems=bad,
                oracle_disagreements=disagreements, executions=n, naming=naming)


class _RealTemplate(family.Template):
    """Template whose tree is the real parse of the real text (slots located through a parallel parse of
    the placeholder text: same shape => same node order)"""

    def __init__(self, shape, naming):
        family.Template.__init__(self, shape)
        self.text = family.render(shape, naming)
        real_tree = ast.parse(self.text, 'shape.py')
        a = list(ast.walk(self.tree))
        b = list(ast.walk(real_tree))
        if len(a) != len(b) or any(type(x) is not type(y) for x, y in zip(a, b)):
            raise ValueError('real text does not parse to the template structure')
        m = {id(x): y for x, y in zip(a, b)}
        self.carriers = {s: [(m[id(n)], f, i) for n, f, i in cs] for s, cs in self.carriers.items()}
        self.read_node = {s: m[id(n)] for s, n in self.read_node.items()}
        self.pos = {}
        self.extra_pos = {}
        lines = self.text.splitlines()
        for s, cs in self.carriers.items():
            n = cs[0][0]
            if hasattr(n, 'lineno'):
                self.pos[s] = (n.lineno, n.col_offset)
                if isinstance(n, (ast.FunctionDef, ast.ClassDef)):
                    # the real find_id_loc reports the column of the name, not of the keyword
                    col = lines[n.lineno - 1].find(' ' + n.name, n.col_offset)
                    self.extra_pos[s] = (n.lineno, col + 1)
        self.tree = real_tree

    def substitute(self, naming):
        return self.tree
