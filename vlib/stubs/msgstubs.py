"""Stubs for the C14 harnesses (all listed in the evidence as part of the claim).

pstruct   pure-Python model of the struct formats umsgpack uses (arithmetic only, so CrossHair keeps
          integers symbolic instead of realising them at the C boundary).  Validated against the real
          struct module on every run (props/c14.py: validate_pstruct).
HB        harness byte string: a list of int terms (each 0..255, concrete or symbolic).
Blob      opaque payload: a bytes subclass with a symbolic length and an identity; contents are not modelled.
SStr      opaque text: str subclass whose utf-8 encoding is a Blob of symbolic length (encode/decode are
          mutually inverse opaque maps).
Dbl       a double as its 64-bit pattern (equality by bits, so NaNs are covered).
W / R     writer / reader over segment lists, passed to the public pack(obj, fp) / unpack(fp).
"""


class error(Exception):
    pass


_F = {'b': (1, True), 'B': (1, False), 'h': (2, True), 'H': (2, False), 'i': (4, True),
      'I': (4, False), 'q': (8, True), 'Q': (8, False)}


class HB(object):
    def __init__(self, items):
        self.items = list(items)

    def __len__(self):
        return len(self.items)

    def __add__(self, o):
        return Segs([self]) + o

    def __radd__(self, o):
        return Segs([o]) + self

    def __getitem__(self, i):
        if isinstance(i, slice):
            return HB(self.items[i])
        return self.items[i]

    def __eq__(self, o):
        if isinstance(o, (bytes, bytearray)) and not isinstance(o, Blob):
            o = HB(list(o))
        return isinstance(o, HB) and len(o.items) == len(self.items) and \
            all(a == b for a, b in zip(self.items, o.items))

    def __ne__(self, o):
        return not self.__eq__(o)

    def __hash__(self):
        return 0

    def __repr__(self):
        return 'HB(%r)' % (self.items,)


class Blob(bytes):
    def __new__(cls, n, tag='p', text=None):
        o = bytes.__new__(cls, b'')
        o.n = n
        o.tag = tag
        o.text = text
        return o

    def __len__(self):
        return self.n

    def __radd__(self, other):
        return Segs([other]) + self

    def __add__(self, other):
        return Segs([self]) + other

    def __eq__(self, o):
        return self is o

    def __ne__(self, o):
        return self is not o

    def __hash__(self):
        return id(self)

    def __repr__(self):
        return 'Blob(%r,%s)' % (self.n, self.tag)


class SStr(str):
    def __new__(cls, n):
        o = str.__new__(cls, '')
        o.blob = Blob(n, 'utf8', text=o)
        return o

    def encode(self, enc='utf-8', errors='strict'):
        assert enc == 'utf-8'
        return self.blob

    def __eq__(self, o):
        return self is o

    def __ne__(self, o):
        return self is not o

    def __hash__(self):
        return id(self)


class Dbl(float):
    def __new__(cls, bits):
        o = float.__new__(cls, 0.0)
        o.bits = bits
        return o

    def __eq__(self, o):
        return isinstance(o, Dbl) and o.bits == self.bits

    def __ne__(self, o):
        return not self.__eq__(o)

    def __hash__(self):
        return 0


class Segs(object):
    def __init__(self, parts):
        self.parts = []
        for p in parts:
            self._push(p)

    def _push(self, p):
        if isinstance(p, Segs):
            self.parts.extend(p.parts)
        elif isinstance(p, Blob):
            self.parts.append(p)
        elif isinstance(p, (bytes, bytearray)):
            if len(p):
                self.parts.append(HB(list(p)))
        elif isinstance(p, HB):
            if len(p.items):
                self.parts.append(p)
        else:
            raise TypeError('Segs: %r' % type(p))

    def __add__(self, o):
        r = Segs(self.parts)
        r._push(o)
        return r

    def __radd__(self, o):
        r = Segs([o])
        r.parts.extend(self.parts)
        return r

    def items(self):
        """flat list: int terms and Blob objects"""
        out = []
        for p in self.parts:
            if isinstance(p, Blob):
                out.append(p)
            else:
                out.extend(p.items)
        return out


class pstruct(object):
    error = error

    @staticmethod
    def _fmt(fmt):
        if fmt[0] in '<>!=@':
            fmt = fmt[1:]
        return fmt

    @staticmethod
    def _big(fmt):
        if fmt[0] in '>!':
            return True
        if fmt[0] == '<':
            return False
        import sys
        return sys.byteorder == 'big'

    @classmethod
    def pack(cls, fmt, *vals):
        out = []
        for c, v in zip(cls._fmt(fmt), vals):
            if c in 'df':
                n = 8 if c == 'd' else 4
                v = v.bits
                signed = False
            else:
                n, signed = _F[c]
                if isinstance(v, bool) or not isinstance(v, int):
                    raise error('required argument is not an integer')
            lo, hi = (-(1 << (8 * n - 1)), (1 << (8 * n - 1)) - 1) if signed else (0, (1 << (8 * n)) - 1)
            if not (lo <= v <= hi):
                raise error('argument out of range')
            if v < 0:
                v = v + (1 << (8 * n))
            bs = []
            for _ in range(n):
                bs.append(v % 256)
                v = v // 256
            out.extend(reversed(bs) if cls._big(fmt) else bs)
        return HB(out)

    @classmethod
    def unpack(cls, fmt, data):
        res = []
        pos = 0
        f = cls._fmt(fmt)
        need = sum(8 if c == 'd' else 4 if c == 'f' else _F[c][0] for c in f)
        if len(data) != need:
            raise error('unpack requires a buffer of %d bytes' % need)
        for c in f:
            if c in 'df':
                n, signed = (8 if c == 'd' else 4), False
            else:
                n, signed = _F[c]
            v = 0
            for i in (range(n) if cls._big(fmt) else range(n - 1, -1, -1)):
                v = v * 256 + data[pos + i]
            pos += n
            if signed and v >= (1 << (8 * n - 1)):
                v -= (1 << (8 * n))
            res.append(Dbl(v) if c in 'df' else v)
        return tuple(res)


class _BytesMeta(type):
    def __instancecheck__(cls, obj):
        return isinstance(obj, bytes)

    def __subclasscheck__(cls, sub):
        return issubclass(sub, bytes)


class BytesShim(object, metaclass=_BytesMeta):
    """stands in for the module-global name `bytes` inside umsgpack: isinstance() behaves like bytes,
    bytes.decode(blob, 'utf-8') returns the text the blob was encoded from (opaque inverse)."""

    @staticmethod
    def decode(b, enc='utf-8'):
        if isinstance(b, Blob):
            if b.text is None:
                raise UnicodeDecodeError('utf-8', b'', 0, 1, 'opaque non-text blob')
            return b.text
        return bytes.decode(b, enc)


class W(object):
    def __init__(self):
        self.segs = Segs([])

    def write(self, b):
        self.segs = self.segs + b


class R(object):
    """reader over a flat item list (ints and Blobs); `limit` cuts the stream after that many bytes
    (None = whole stream)."""

    def __init__(self, items, limit=None):
        self.items = list(items)
        self.i = 0
        self.left = limit       # bytes still available, or None
        self.consumed_all = False

    def _take_ok(self, n):
        if self.left is None:
            return n
        k = n if n <= self.left else self.left
        self.left = self.left - k
        return k

    def read(self, n):
        if self.i >= len(self.items):
            return b''
        head = self.items[self.i]
        if n == 0 and not isinstance(head, Blob):
            return b''
        if isinstance(head, Blob):
            k = self._take_ok(head.n if n >= head.n else n)
            if n == head.n and k == n:
                self.i += 1
                return head
            if k == n:
                # asked for a proper part of the payload: wrong length was decoded
                return Blob(n, 'slice')
            return Blob(k, 'short')
        out = []
        while len(out) < n and self.i < len(self.items) and not isinstance(self.items[self.i], Blob):
            if self._take_ok(1) == 0:
                break
            out.append(self.items[self.i])
            self.i += 1
        if n == 1:
            return bytes(out)
        return HB(out)

    def at_end(self):
        return self.i >= len(self.items)
