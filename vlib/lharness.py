"""C13 harness: the real extractor / names_at on a tree whose node positions are affine expressions of
symbolic layout parameters (vlib/layout.py), compared with the canonical one-statement-per-line layout."""
import ast
import itertools

from vlib import family, tharness, layout

NB = 8      # blank-line parameters (physical lines beyond the 8th keep 0 blank lines)
NG = 3      # gap parameters


def setup():
    import supp.scope
    supp.scope.SourceScope.find_id_loc = lambda self, id, start, shift=0, delimeters=True, **kw: start


def sample_partitions(shape, k=3):
    out = []
    for part in family.var_partitions(shape, 120):
        if tharness.compiles(shape, part, []):
            out.append(part)
    if not out:
        return []
    picks = [out[0], out[-1], out[len(out) // 2]]
    res = []
    for p in picks:
        if p not in res:
            res.append(p)
    return res[:k]


def flag_sets(lines, cap):
    el = layout.eligible(lines)
    out = []
    for r in range(len(el) + 1):
        for on in itertools.combinations(el, r):
            out.append(frozenset(on))
    # deterministic thinning: keep the empty set, all singletons, the full set, then spread
    if len(out) > cap:
        keep = [out[0]] + [s for s in out if len(s) == 1] + [out[-1]]
        rest = [s for s in out if s not in keep]
        step = max(1, len(rest) // max(1, cap - len(keep)))
        keep += rest[::step]
        out = keep[:cap]
    return out


def analyse_positions(shape, text, tree, slot_nodes, read_nodes):
    """like tharness.analyse, but sites are identified by comparing (possibly symbolic) positions"""
    from supp.util import Source
    from supp.scope import SourceScope
    from supp.nast import extract
    from supp.name import MultiName, UndefinedName
    src = Source(text, 'shape.py')
    src.__dict__['tree'] = tree
    scope = SourceScope(src)
    extract(tree, scope.flow)
    binds = [(s, n) for s, n in slot_nodes.items() if shape.kinds[s] == 'b']

    def slot_of(a):
        if not hasattr(a, 'declared_at'):
            return 'BUILTIN'
        l, c = a.declared_at
        for s, n in binds:
            if n.lineno == l and n.col_offset == c:
                return s
        return '?'
    out = {}
    for r, node in read_nodes.items():
        res = [hasattr(node, 'flow'), False, [], False, False]
        if res[0]:
            v = node.flow.names_at((node.lineno, node.col_offset)).get(node.id)
            if v is not None:
                res[1] = True
                for a in (v.alt_names if isinstance(v, MultiName) else [v]):
                    if isinstance(a, UndefinedName):
                        res[3] = True
                    else:
                        s = slot_of(a)
                        if s == 'BUILTIN':
                            res[4] = True
                        else:
                            res[2].append(s)
        res[2] = sorted(res[2], key=str)
        out[r] = tuple(res[:2]) + (tuple(res[2]),) + tuple(res[3:])
    return out


class LH(object):
    def __init__(self, shape_name, cap=16):
        self.shape = tharness.shape_by_name(shape_name)
        self.parts = sample_partitions(self.shape)
        self.cases = []     # (partition index, lines, flag set, affine model, canonical result)
        for pi, part in enumerate(self.parts):
            naming = tharness.canon(self.shape, part, [])
            text = family.render(self.shape, naming)
            lines = text.splitlines()
            canon_tree = ast.parse(text)
            cs = layout.structure(canon_tree)
            canon_res = self._run_concrete(naming, text)
            for on in flag_sets(lines, cap):
                aff = layout.affine(lines, on, cs)
                if aff is not None:
                    self.cases.append((pi, naming, text, lines, on, aff, canon_res))
        self.reached = False

    def _template(self, naming, text):
        real = tharness._RealTemplate(self.shape, naming)
        slot_nodes = {s: cs[0][0] for s, cs in real.carriers.items() if hasattr(cs[0][0], 'lineno')}
        return real.tree, slot_nodes, real.read_node

    def _run_concrete(self, naming, text):
        tree, slot_nodes, read_nodes = self._template(naming, text)
        return analyse_positions(self.shape, text, tree, slot_nodes, read_nodes)

    def ncases(self):
        return len(self.cases)

    def run(self, case, nums_list):
        """case: concrete index; nums_list: symbolic ints [b0..b7, width, cont, g0..g2]"""
        from crosshair.tracers import NoTracing
        self.reached = False
        with NoTracing():
            pi, naming, text, lines, on, aff, canon_res = self.cases[case]
            keys = aff[0]
            tree, slot_nodes, read_nodes = self._template(naming, text)
            nodes = [n for n in ast.walk(tree) if hasattr(n, 'lineno')]
        nums = {}
        gi = 0
        for k in keys:
            if k == 'width':
                nums[k] = nums_list[NB]
            elif k == 'cont':
                nums[k] = nums_list[NB + 1]
            elif k[0] == 'blank':
                nums[k] = nums_list[k[1]] if k[1] < NB else 0
            else:
                nums[k] = nums_list[NB + 2 + gi] if gi < NG else 0
                gi += 1
        pos = layout.predict(aff, nums)
        for n, (l, c) in zip(nodes, pos):
            n.lineno = l
            n.col_offset = c
        got = analyse_positions(self.shape, text, tree, slot_nodes, read_nodes)
        self.reached = True
        return got == canon_res

    def describe(self, case, nums_list):
        pi, naming, text, lines, on, aff, canon_res = self.cases[case]
        keys = aff[0]
        nums = {}
        gi = 0
        for k in keys:
            if k == 'width':
                nums[k] = nums_list[NB]
            elif k == 'cont':
                nums[k] = nums_list[NB + 1]
            elif k[0] == 'blank':
                nums[k] = nums_list[k[1]] if k[1] < NB else 0
            else:
                nums[k] = nums_list[NB + 2 + gi] if gi < NG else 0
                gi += 1
        relaid, _ = layout.apply(lines, on, nums)
        return naming, text, relaid, on, nums, aff


def native_compare(shape, naming, canon_text, relaid_text):
    """replay: real parser on both texts, real (unstubbed) supp: names_at alternatives per read and lint"""
    import supp.name
    from supp.linter import lint
    from supp.project import Project
    problems = []
    t1 = ast.parse(canon_text)
    t2 = ast.parse(relaid_text)
    if layout.structure(t1) != layout.structure(t2):
        return None, ['layout printer produced a different program']
    res = []
    for text in (canon_text, relaid_text):
        real = tharness._RealTemplate(shape, naming)
        # re-point the template at this text's parse (same structure)
        a = list(ast.walk(real.tree))
        b = list(ast.walk(ast.parse(text)))
        m = {id(x): y for x, y in zip(a, b)}
        real.carriers = {s: [(m[id(n)], f, i) for n, f, i in cs] for s, cs in real.carriers.items()}
        real.read_node = {s: m[id(n)] for s, n in real.read_node.items()}
        real.pos, real.extra_pos = {}, {}
        lines = text.splitlines()
        for s, cs in real.carriers.items():
            n = cs[0][0]
            if hasattr(n, 'lineno'):
                real.pos[s] = (n.lineno, n.col_offset)
                if isinstance(n, (ast.FunctionDef, ast.ClassDef)):
                    col = lines[n.lineno - 1].find(' ' + n.name, n.col_offset)
                    real.extra_pos[s] = (n.lineno, col + 1)
        real.tree = b[0]
        real.text = text
        r = tharness.analyse(real, naming, supp.name.UndefinedName, real_text=text)
        res.append({k: tharness.freeze(v) for k, v in r.items()})
    if res[0] != res[1]:
        for r in res[0]:
            if res[0][r] != res[1][r]:
                problems.append('read r%d: canonical layout %s, relaid %s' % (r, res[0][r], res[1][r]))
    p = Project(['/nonexistent-root'])
    l1 = [(x[0], x[1]) for x in lint(p, canon_text, 'shape.py')]
    l2 = [(x[0], x[1]) for x in lint(p, relaid_text, 'shape.py')]
    if l1 != l2:
        problems.append('lint differs: canonical %r, relaid %r' % (l1, l2))
    return res, problems
