"""Query runner: harness modules -> CrossHair (one process per module) -> verdicts -> native replay
-> known-findings filter -> evidence file -> exit status.

Exit codes: 0 = property held on everything explored (KNOWN-FINDING lines allowed),
            1 = unlisted violation (a VIOLATION line was printed),
            3 = harness error (spurious candidate, vacuous twin, stub validation failure).
"""
import ast
import importlib.util
import json
import os
import re
import shutil
import subprocess
import sys
import time
from concurrent.futures import ThreadPoolExecutor

VERIF = os.path.dirname(os.path.dirname(os.path.abspath(__file__)))
WORK = os.environ.get('VERIF_WORK') or os.path.join(VERIF, '.work')
EVID = os.path.join(VERIF, 'evidence') if not os.environ.get('VERIF_WORK') else os.path.join(os.environ['VERIF_WORK'], 'evidence')
KNOWN = os.path.join(VERIF, 'known_findings.json')
JOBS = int(os.environ.get('VERIF_JOBS', '16'))


class Query(object):
    """One solver obligation: function `func` of harness module source `src`.

    kind: 'main'   -> must be confirmed; refuted => candidate (replayed natively)
          'twin'   -> reachability witness: postcondition False, must be refuted
          'known'  -> asserts a listed finding still reproduces (must be refuted); prints KNOWN-FINDING
    """

    def __init__(self, name, src, func='check', kind='main', timeout=60.0, per_path=None,
                 meta=None, label='S'):
        self.name = name
        self.src = src
        self.func = func
        self.kind = kind
        self.timeout = timeout
        self.per_path = per_path if per_path is not None else max(5.0, timeout / 4.0)
        self.meta = meta or {}
        self.label = label      # 'S' symbolic, 'E' solver-enumerated (see DESIGN.md section 1)
        self.result = None
        self.path = None


def workdir(pid):
    d = os.path.join(WORK, pid)
    shutil.rmtree(d, ignore_errors=True)
    os.makedirs(d)
    rd = os.path.join(EVID, 'replay')
    if os.path.isdir(rd):
        for f in os.listdir(rd):
            if f.startswith(pid + '_'):
                os.unlink(os.path.join(rd, f))
    return d


def _run_module(path, queries):
    """queries share one module file; run them in one driver process."""
    timeout = max(q.timeout for q in queries)
    per_path = max(q.per_path for q in queries)
    cmd = [sys.executable, '-m', 'vlib.chdriver', path, str(timeout), str(per_path)] + [q.func for q in queries]
    wall = sum(q.timeout for q in queries) * 3 + 120
    env = dict(os.environ, PYTHONHASHSEED='0', PYTHONDONTWRITEBYTECODE='1')
    t0 = time.time()
    try:
        p = subprocess.run(cmd, cwd=VERIF, env=env, stdout=subprocess.PIPE, stderr=subprocess.PIPE,
                           timeout=wall, text=True)
        out, err = p.stdout, p.stderr
    except subprocess.TimeoutExpired as e:
        out = e.stdout.decode() if isinstance(e.stdout, bytes) else (e.stdout or '')
        err = 'driver wall timeout'
    res = {}
    for line in out.splitlines():
        if line.startswith('@@RESULT '):
            r = json.loads(line[9:])
            res[r['func']] = r
    for q in queries:
        q.result = res.get(q.func) or {'func': q.func, 'status': 'error',
                                       'message': 'no result: ' + (err or '')[-400:]}
        q.result.setdefault('wall_s', round(time.time() - t0, 3))
    return queries


def run_queries(pid, queries, jobs=None):
    """Write harness modules (queries with identical src share a module and a process)."""
    d = os.path.join(WORK, pid)
    os.makedirs(d, exist_ok=True)
    groups = {}
    for q in queries:
        groups.setdefault(q.src, []).append(q)
    tasks = []
    for i, (src, qs) in enumerate(groups.items()):
        path = os.path.join(d, 'h_%s_%04d.py' % (pid.lower(), i))
        with open(path, 'w') as f:
            f.write(src)
        for q in qs:
            q.path = path
        tasks.append((path, qs))
    # longest first
    tasks.sort(key=lambda t: -sum(q.timeout for q in t[1]))
    with ThreadPoolExecutor(max_workers=jobs or JOBS) as ex:
        list(ex.map(lambda t: _run_module(*t), tasks))
    return queries


_CALL = re.compile(r'when calling (.*?)(?: \(which (?:returns|raises).*\))?$', re.S)


def parse_call(message):
    """'false when calling check(1, "a") (which returns False)' -> ([1, 'a'], {})"""
    message = re.sub(r' with crosshair\.patch_to_return\(.*?\)(?= \(which|$)', '', message.strip(), flags=re.S)
    m = _CALL.search(message.strip())
    if not m:
        raise ValueError('cannot parse counterexample: %r' % message)
    expr = m.group(1).strip()
    node = ast.parse(expr, mode='eval').body
    if not isinstance(node, ast.Call):
        raise ValueError('not a call: %r' % expr)
    args = [_lit(a) for a in node.args]
    kwargs = {k.arg: _lit(k.value) for k in node.keywords}
    return args, kwargs


def _lit(node):
    try:
        return ast.literal_eval(node)
    except Exception:
        return eval(compile(ast.Expression(node), '<cx>', 'eval'), {'float': float})


def load_module(path, name=None):
    name = name or ('replay_' + os.path.basename(path)[:-3])
    spec = importlib.util.spec_from_file_location(name, path)
    mod = importlib.util.module_from_spec(spec)
    sys.modules[name] = mod
    spec.loader.exec_module(mod)
    return mod


def load_known(pid):
    try:
        data = json.load(open(KNOWN))
    except FileNotFoundError:
        return []
    return [e for e in data.get('findings', []) if e['property'] == pid and e.get('status') == 'known']


class Report(object):
    """Collects verdicts for one property run and writes evidence."""

    def __init__(self, pid, tier, seed, level):
        self.pid, self.tier, self.seed, self.level = pid, tier, seed, level
        self.t0 = time.time()
        self.violations = []      # (what, replay_path)
        self.known_hits = []      # what
        self.harness_errors = []  # str
        self.inconclusive = []
        self.queries = []
        self.extra = {}
        self.samples = []
        self.assumptions = []
        self.functions = []
        self.bounds = []
        self.validation = {}

    def violation(self, what, replay_obj):
        d = os.path.join(EVID, 'replay')
        os.makedirs(d, exist_ok=True)
        path = os.path.join(d, '%s_%d.json' % (self.pid, len(self.violations)))
        with open(path, 'w') as f:
            json.dump(dict(replay_obj, property=self.pid, what=what), f, indent=1, sort_keys=True, default=repr)
        self.violations.append((what, path))
        print('VIOLATION property=%s replay=%s' % (self.pid, path), flush=True)
        print('  ' + what, flush=True)

    def known(self, what):
        if what not in self.known_hits:
            self.known_hits.append(what)
            print('KNOWN-FINDING: property=%s %s' % (self.pid, what), flush=True)

    def harness_error(self, what):
        self.harness_errors.append(what)
        print('HARNESS-ERROR property=%s %s' % (self.pid, what), flush=True)

    def absorb(self, queries, replay):
        """Classify results.  replay(query, args, kwargs) -> None | dict(violated=bool, what=str,
        known=<finding text or None>, replay=<json-able>) is the native re-execution."""
        for q in queries:
            self.queries.append(q)
            r = q.result
            st = r['status']
            if q.kind == 'twin':
                if st != 'refuted':
                    self.harness_error('reachability twin %s not refuted (%s): harness may be vacuous'
                                       % (q.name, st))
                continue
            if q.kind == 'known':
                # a listed finding must still reproduce (natively) to print its line
                continue
            if st == 'confirmed':
                continue
            if st in ('unknown', 'pre_unsat'):
                self.inconclusive.append('%s: %s' % (q.name, st))
                continue
            if st == 'error':
                self.harness_error('%s: %s' % (q.name, r.get('message')))
                continue
            # refuted -> candidate
            try:
                args, kwargs = parse_call(r['message'])
            except Exception as e:
                self.harness_error('%s: unparsable counterexample %r (%s)' % (q.name, r.get('message'), e))
                continue
            try:
                verdict = replay(q, args, kwargs)
            except Exception as e:
                import traceback
                traceback.print_exc()
                self.harness_error('%s: replay crashed on %r: %s: %s' % (q.name, args, type(e).__name__, e))
                continue
            r['candidate'] = {'args': args, 'kwargs': kwargs}
            if not verdict or not verdict.get('violated'):
                r['spurious'] = True
                self.harness_error('%s: candidate %r did not reproduce natively (stub/model mismatch): %s'
                                   % (q.name, args, r.get('message')))
                continue
            if verdict.get('known'):
                self.known(verdict['known'])
                r['known'] = verdict['known']
            else:
                self.violation(verdict['what'], dict(verdict.get('replay') or {}, query=q.name,
                                                       args=args, kwargs=kwargs, meta=q.meta))

    def native_witnesses(self):
        """listed findings that lie outside the families of the solver queries carry a small native program
        (witness_code, defining witness() -> bool): it runs in a fresh interpreter against the current tree; while the
        defect is present the finding prints its KNOWN-FINDING line.  Nothing is suppressed by these entries."""
        import subprocess
        repo = os.environ.get('VERIF_REPO') or '/repo'
        for e in json.load(open(KNOWN))['findings']:
            if e['property'] != self.pid or e.get('status') != 'known' or not e.get('witness_code'):
                continue
            code = 'import sys\nsys.path.insert(0, %r)\nimport logging\nlogging.disable(logging.CRITICAL)\n%s\nsys.exit(7 if witness() else 0)\n' % (repo, e['witness_code'])
            try:
                p = subprocess.run([sys.executable, '-c', code], stdout=subprocess.PIPE, stderr=subprocess.PIPE, timeout=120)
                rc = p.returncode
            except subprocess.TimeoutExpired:
                rc = -1
            if rc == 7:
                self.known(e['what'])
            elif rc == 0:
                print('note: listed finding no longer reproduces: %s' % e['what'], flush=True)
            else:
                self.harness_error('witness of listed finding failed to run (rc %s): %s' % (rc, e['what'][:80]))

    def finish(self, explanation, rule, extra_cov=None):
        self.native_witnesses()
        qs = [q for q in self.queries]
        main = [q for q in qs if q.kind == 'main']
        cov = {
            'explanation': explanation,
            'rule': rule,
            'obligations': len(main),
            'discharged': sum(1 for q in main if q.result['status'] == 'confirmed'),
            'inconclusive': len(self.inconclusive),
            'inconclusive_queries': self.inconclusive[:20],
            'candidates': sum(1 for q in main if q.result['status'] == 'refuted'),
            'spurious': sum(1 for q in main if q.result.get('spurious')),
            'twins_refuted': sum(1 for q in qs if q.kind == 'twin' and q.result['status'] == 'refuted'),
            'twins': sum(1 for q in qs if q.kind == 'twin'),
            'queries_symbolic_S': sum(1 for q in main if q.label == 'S'),
            'queries_enumerated_E': sum(1 for q in main if q.label == 'E'),
            'paths_explored': sum(int(q.result.get('paths') or 0) for q in main),
            'solver_cpu_s': round(sum(float(q.result.get('cpu_s') or 0) for q in qs), 2),
            'evaluations': max(1, sum(int(q.result.get('paths') or 0) for q in main)),
            'distinct_nontrivial': len(main),
            'functions_encoded': self.functions,
            'bounds': self.bounds,
            'known_findings_reproduced': self.known_hits,
            'stub_validation': self.validation,
            'samples': self.samples[:12],
            'exhaustive': False,
            'harness_errors': self.harness_errors[:20],
        }
        cov.update(extra_cov or {})
        cov.update(self.extra)
        ev = {
            'property_id': self.pid, 'tier': self.tier, 'seed': self.seed, 'level': self.level,
            'coverage': cov, 'assumptions': self.assumptions,
            'wall_s': round(time.time() - self.t0, 2), 'violations': len(self.violations),
        }
        os.makedirs(EVID, exist_ok=True)
        try:
            with open(os.path.join(WORK, self.pid, 'results.json'), 'w') as f:
                json.dump([dict(q.result, name=q.name, kind=q.kind, fn=q.meta.get('fn')) for q in qs], f, indent=1)
        except OSError:
            pass
        with open(os.path.join(EVID, self.pid + '.json'), 'w') as f:
            json.dump(ev, f, indent=1, sort_keys=True, default=repr)
        print('%s tier=%s queries=%d discharged=%d inconclusive=%d candidates=%d known=%d violations=%d '
              'harness_errors=%d paths=%d wall=%.1fs'
              % (self.pid, self.tier, cov['obligations'], cov['discharged'], cov['inconclusive'],
                 cov['candidates'], len(self.known_hits), len(self.violations), len(self.harness_errors),
                 cov['paths_explored'], ev['wall_s']), flush=True)
        if self.violations:
            return 1
        if self.harness_errors:
            return 3
        return 0
