"""Completes the in-memory os / os.path stand-ins of the harnesses with the functions of os and posixpath that
do not touch the file system (string manipulation, constants), so that code under analysis that switches to
another such function (os.path.splitext instead of slicing, os.sep, os.fspath ...) still runs on the stub."""
import os
import posixpath

PURE_PATH = ('join', 'dirname', 'basename', 'splitext', 'split', 'normpath', 'isabs', 'commonprefix', 'commonpath',
             'normcase', 'splitdrive', 'sep', 'altsep', 'extsep', 'curdir', 'pardir', 'pathsep')
PURE_OS = ('sep', 'altsep', 'extsep', 'curdir', 'pardir', 'pathsep', 'linesep', 'fspath', 'fsdecode', 'fsencode', 'name',
           'environ', 'getcwd', 'getpid', 'PathLike', 'error')


def complete(fake_os, fake_path):
    """fake_os / fake_path: classes or instances; attributes they define themselves are kept"""
    for n in PURE_PATH:
        if not _has(fake_path, n):
            v = getattr(posixpath, n)
            _set(fake_path, n, staticmethod(v) if callable(v) and isinstance(fake_path, type) else v)
    if not _has(fake_path, 'isfile') and _has(fake_path, 'exists'):
        ex = fake_path.exists
        _set(fake_path, 'isfile', staticmethod(lambda p, _ex=ex: bool(_ex(p)) and not str(p).endswith('/'))
             if isinstance(fake_path, type) else (lambda p, _ex=ex: bool(_ex(p))))
    for n in ('abspath', 'realpath', 'expanduser'):
        if not _has(fake_path, n):
            f = (lambda p: posixpath.normpath(p))
            _set(fake_path, n, staticmethod(f) if isinstance(fake_path, type) else f)
    for n in PURE_OS:
        if not _has(fake_os, n):
            v = getattr(os, n)
            _set(fake_os, n, staticmethod(v) if callable(v) and not isinstance(v, type) and isinstance(fake_os, type) else v)
    return fake_os


def _has(o, n):
    return n in (o.__dict__ if isinstance(o, type) else dir(o))


def _set(o, n, v):
    setattr(o, n, v)
