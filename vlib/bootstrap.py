"""Create /verif/.venv offline (idempotent).  Run with /venv/bin/python.

The venv is an overlay over /venv (the repository's own environment): a .pth file
adds /venv's site-packages and /repo, and crosshair-tool + z3-solver come from the
offline wheelhouse.  Nothing is fetched from a network.
"""
import fcntl
import os
import subprocess
import sys

VERIF = os.path.dirname(os.path.dirname(os.path.abspath(__file__)))
VENV = os.path.join(VERIF, '.venv')
PY = os.path.join(VENV, 'bin', 'python')
BASE_PY = '/venv/bin/python'
WHEELS = '/opt/veriftools/wheels'
PTH = "import site; site.addsitedir('/venv/lib/python3.12/site-packages')\n/repo\n"


def _ok():
    if not os.path.exists(PY):
        return False
    r = subprocess.run([PY, '-c', 'import crosshair, z3, supp, pytest'],
                       stdout=subprocess.DEVNULL, stderr=subprocess.DEVNULL)
    return r.returncode == 0


def ensure():
    if _ok():
        return PY
    lock = open(os.path.join(VERIF, '.venv.lock'), 'w')
    fcntl.flock(lock, fcntl.LOCK_EX)
    try:
        if _ok():
            return PY
        subprocess.check_call(['rm', '-rf', VENV])
        subprocess.check_call([BASE_PY, '-m', 'venv', VENV])
        sp = os.path.join(VENV, 'lib', 'python3.12', 'site-packages')
        with open(os.path.join(sp, '_verif_overlay.pth'), 'w') as f:
            f.write(PTH)
        env = dict(os.environ, PIP_NO_INDEX='1')
        subprocess.check_call([PY, '-m', 'pip', 'install', '-q', '--no-index',
                               '--find-links', WHEELS, 'crosshair-tool', 'z3-solver'],
                              env=env)
        if not _ok():
            raise SystemExit('bootstrap: overlay venv is not usable')
        return PY
    finally:
        fcntl.flock(lock, fcntl.LOCK_UN)
        lock.close()


if __name__ == '__main__':
    print(ensure())
