"""Program-shape DSL shared by the analysis properties (C01-C05, C13, C17, ...).

A *shape* is a statement tree with numbered identifier *slots*; a *naming* maps each slot to an identifier.
Three consumers:
  render(shape, naming)        -> real Python text (what supp analyses; one statement per line)
  render_hooked(shape, naming) -> the same program with oracle hooks (executed by real CPython, vlib/pyoracle.py)
  vlib/refsem.py               -> definitional interpreter (reference semantics inside the harness)

Statements (tuples):
  ('assign', kind, [b...], E)      kind: simple | chain | tuple | star | ann       B = E / B1 = B2 = E / B1, B2 = E / B1, *B2 = E / B: int = E
  ('expr', E)                      expression statement
  ('if', E, body, orelse)
  ('for', [b...], E, body, orelse) ; ('while', E, body, orelse)
  ('try', body, [(E|None, b|None, hbody)...], orelse, final)
  ('with', [(E, b|None)...], body)
  ('def', b, [param...], [Edecorator...], Ereturns|None, body)     param = (kind, b, Edefault|None, Eann|None)
                                   kind: posonly | arg | vararg | kwonly | kwarg
  ('class', b, [Ebase...], [Ekeyword...], [Edecorator...], body)
  ('global', [d...]) ; ('nonlocal', [d...])
  ('call', r)                      call whatever name r is bound to (def / lambda of the DSL): executes its body
  ('break',) ('continue',) ('return', E|None) ('raise',) ('pass',)
  ('import', 'mod'|'from'|'star', b|None, modname, member|None)   generated project modules
Expressions E: list of atoms, evaluated left to right:
  ('r', r)                         read of slot r
  ('w', b, E)                      walrus (b := E)
  ('lam', [param...], E, callnow)  lambda; body E evaluated if callnow
  ('callx', E)                     a call with arguments E: print(<args>)
  ('comp', kind, [(bs, Eiter, [Eif...])...], Eelt)   kind: list | set | dict | gen
Slots: binding sites 'b<i>', reads 'r<i>', declarations 'd<i>' -- all plain ints unique within a shape;
shape.kinds[slot] in {'b','r','d'}.
"""
import ast
import itertools


class Shape(object):
    def __init__(self, name, body, kinds=None, note='', ties=None):
        self.name = name
        self.body = body
        self.note = note
        self.kinds = {}
        self._scan()
        # identifier variables: slots in one tie group always carry the same identifier (keeps the number
        # of symbolic identifiers, hence equality patterns, small for large shapes)
        groups = [list(g) for g in (ties or [])]
        tied = {s for g in groups for s in g}
        for s in self.slots:
            if s not in tied:
                groups.append([s])
        groups.sort(key=lambda g: min(g))
        self.groups = groups
        self.var_of = {s: i for i, g in enumerate(groups) for s in g}

    # ------------------------------------------------------------------ slot discovery
    def _scan(self):
        self.kinds = {}

        def E(e):
            for a in e or []:
                if a[0] == 'r':
                    self.kinds[a[1]] = 'r'
                elif a[0] == 'w':
                    self.kinds[a[1]] = 'b'
                    E(a[2])
                elif a[0] == 'callx':
                    E(a[1])
                elif a[0] == 'lam':
                    params(a[1])
                    E(a[2])
                elif a[0] == 'comp':
                    for bs, it, ifs in a[2]:
                        for b in bs:
                            self.kinds[b] = 'b'
                        E(it)
                        for i in ifs:
                            E(i)
                    E(a[3])
                    if len(a) > 4:
                        E(a[4])

        def params(ps):
            for kind, b, dflt, ann in ps:
                self.kinds[b] = 'b'
                E(dflt)
                E(ann)

        def S(body):
            for s in body:
                k = s[0]
                if k == 'assign':
                    for b in s[2]:
                        self.kinds[b] = 'b'
                    E(s[3])
                elif k == 'expr':
                    E(s[1])
                elif k == 'if':
                    E(s[1]); S(s[2]); S(s[3])
                elif k == 'for':
                    for b in s[1]:
                        self.kinds[b] = 'b'
                    E(s[2]); S(s[3]); S(s[4])
                elif k == 'while':
                    E(s[1]); S(s[2]); S(s[3])
                elif k == 'try':
                    S(s[1])
                    for et, b, hb in s[2]:
                        E(et)
                        if b is not None:
                            self.kinds[b] = 'b'
                        S(hb)
                    S(s[3]); S(s[4])
                elif k == 'with':
                    for e, b in s[1]:
                        E(e)
                        if b is not None:
                            self.kinds[b] = 'b'
                    S(s[2])
                elif k == 'def':
                    self.kinds[s[1]] = 'b'
                    params(s[2])
                    for d in s[3]:
                        E(d)
                    E(s[4])
                    S(s[5])
                elif k == 'class':
                    self.kinds[s[1]] = 'b'
                    for e in s[2] + s[3] + s[4]:
                        E(e)
                    S(s[5])
                elif k in ('global', 'nonlocal'):
                    for d in s[1]:
                        self.kinds[d] = 'd'
                elif k == 'call':
                    self.kinds[s[1]] = 'r'
                elif k == 'return':
                    E(s[1])
                elif k == 'import':
                    if s[2] is not None:
                        self.kinds[s[2]] = 'b'
        S(self.body)

    @property
    def slots(self):
        return sorted(self.kinds)

    def reads(self):
        return [s for s in self.slots if self.kinds[s] == 'r']

    def binds(self):
        return [s for s in self.slots if self.kinds[s] == 'b']


def placeholder(slot):
    return 'v%dq' % slot


def placeholders(shape):
    return {s: placeholder(s) for s in shape.slots}


# ---------------------------------------------------------------------------------------- plain renderer
class _R(object):
    def __init__(self, naming, hooked=False, meta=None):
        self.n = naming
        self.hooked = hooked
        self.lines = []
        self.meta = meta if meta is not None else {}
        self.dec = itertools.count()

    def emit(self, ind, text):
        self.lines.append('    ' * ind + text)

    # -- expressions: plain
    def E(self, e):
        parts = [self.atom(a) for a in e or []]
        if not parts:
            return '0'
        if len(parts) == 1:
            return parts[0]
        return '(' + ', '.join(parts) + ')'

    def params(self, ps):
        out = []
        seen_kwonly = False
        had_posonly = False
        for i, (kind, b, dflt, ann) in enumerate(ps):
            t = self.n[b]
            if ann is not None:
                t += ': ' + self.E(ann)
            if dflt is not None:
                t += ('=' if ann is None else ' = ') + self.E(dflt)
            if kind == 'posonly':
                had_posonly = True
                out.append(t)
                nxt = ps[i + 1][0] if i + 1 < len(ps) else None
                if nxt != 'posonly':
                    out.append('/')
            elif kind == 'arg':
                out.append(t)
            elif kind == 'vararg':
                out.append('*' + t)
                seen_kwonly = True
            elif kind == 'kwonly':
                if not seen_kwonly:
                    out.append('*')
                    seen_kwonly = True
                out.append(t)
            elif kind == 'kwarg':
                out.append('**' + t)
        return ', '.join(out)

    def atom(self, a):
        k = a[0]
        if k == 'r':
            return self.n[a[1]]
        if k == 'w':
            return '(%s := %s)' % (self.n[a[1]], self.E(a[2]))
        if k == 'callx':
            return 'print(%s)' % ', '.join(self.atom(x) for x in a[1])
        if k == 'lam':
            body = 'lambda %s: %s' % (self.params(a[1]), self.E(a[2]))
            return '(%s)' % body
        if k == 'comp':
            gens = []
            for bs, it, ifs in a[2]:
                tgt = ', '.join(self.n[b] for b in bs)
                g = 'for %s in %s' % (tgt, self.E(it))
                for i in ifs:
                    g += ' if %s' % self.E(i)
                gens.append(g)
            gens = ' '.join(gens)
            elt = self.E(a[3])
            if a[1] == 'list':
                return '[%s %s]' % (elt, gens)
            if a[1] == 'set':
                return '{%s %s}' % (elt, gens)
            if a[1] == 'gen':
                return '(%s %s)' % (elt, gens)
            return '{%s: %s %s}' % (self.E(a[4]) if len(a) > 4 else '0', elt, gens)
        raise ValueError(a)

    def body(self, stmts, ind):
        if not stmts:
            self.emit(ind, 'pass')
        for s in stmts:
            self.stmt(s, ind)

    def stmt(self, s, ind):
        k = s[0]
        n = self.n
        if k == 'assign':
            kind, bs, e = s[1], s[2], s[3]
            if kind == 'simple':
                self.emit(ind, '%s = %s' % (n[bs[0]], self.E(e)))
            elif kind == 'chain':
                self.emit(ind, ' = '.join(n[b] for b in bs) + ' = ' + self.E(e))
            elif kind == 'tuple':
                self.emit(ind, ', '.join(n[b] for b in bs) + ' = ' + self.E(e))
            elif kind == 'star':
                self.emit(ind, ', '.join(n[b] for b in bs[:-1]) + ', *' + n[bs[-1]] + ' = ' + self.E(e))
            elif kind == 'ann':
                self.emit(ind, '%s: int = %s' % (n[bs[0]], self.E(e)))
            else:
                raise ValueError(kind)
        elif k == 'expr':
            self.emit(ind, self.E(s[1]))
        elif k == 'if':
            self.emit(ind, 'if %s:' % self.E(s[1]))
            self.body(s[2], ind + 1)
            if s[3]:
                self.emit(ind, 'else:')
                self.body(s[3], ind + 1)
        elif k == 'for':
            self.emit(ind, 'for %s in %s:' % (', '.join(n[b] for b in s[1]), self.E(s[2])))
            self.body(s[3], ind + 1)
            if s[4]:
                self.emit(ind, 'else:')
                self.body(s[4], ind + 1)
        elif k == 'while':
            self.emit(ind, 'while %s:' % self.E(s[1]))
            self.body(s[2], ind + 1)
            if s[3]:
                self.emit(ind, 'else:')
                self.body(s[3], ind + 1)
        elif k == 'try':
            self.emit(ind, 'try:')
            self.body(s[1], ind + 1)
            for et, b, hb in s[2]:
                t = 'except'
                if et is not None or b is not None:
                    t += ' ' + (self.E(et) if et is not None else 'Exception')
                if b is not None:
                    t += ' as ' + n[b]
                self.emit(ind, t + ':')
                self.body(hb, ind + 1)
            if s[3]:
                self.emit(ind, 'else:')
                self.body(s[3], ind + 1)
            if s[4]:
                self.emit(ind, 'finally:')
                self.body(s[4], ind + 1)
        elif k == 'with':
            items = []
            for e, b in s[1]:
                items.append(self.E(e) + (' as ' + n[b] if b is not None else ''))
            self.emit(ind, 'with %s:' % ', '.join(items))
            self.body(s[2], ind + 1)
        elif k == 'def':
            for d in s[3]:
                self.emit(ind, '@' + self.E(d))
            ret = (' -> ' + self.E(s[4])) if s[4] is not None else ''
            self.emit(ind, 'def %s(%s)%s:' % (n[s[1]], self.params(s[2]), ret))
            self.body(s[5], ind + 1)
        elif k == 'class':
            for d in s[4]:
                self.emit(ind, '@' + self.E(d))
            args = [self.E(e) for e in s[2]] + ['metaclass=' + self.E(e) for e in s[3]]
            self.emit(ind, 'class %s%s:' % (n[s[1]], '(' + ', '.join(args) + ')' if args else ''))
            self.body(s[5], ind + 1)
        elif k == 'global':
            self.emit(ind, 'global ' + ', '.join(n[d] for d in s[1]))
        elif k == 'nonlocal':
            self.emit(ind, 'nonlocal ' + ', '.join(n[d] for d in s[1]))
        elif k == 'call':
            self.emit(ind, n[s[1]] + '()')
        elif k == 'break':
            self.emit(ind, 'break')
        elif k == 'continue':
            self.emit(ind, 'continue')
        elif k == 'pass':
            self.emit(ind, 'pass')
        elif k == 'return':
            self.emit(ind, 'return' + (' ' + self.E(s[1]) if s[1] is not None else ''))
        elif k == 'raise':
            self.emit(ind, 'raise Exception')
        elif k == 'import':
            kind, b, mod, member = s[1], s[2], s[3], s[4]
            if kind == 'mod':
                self.emit(ind, 'import %s as %s' % (mod, n[b]))
            elif kind == 'from':
                self.emit(ind, 'from %s import %s as %s' % (mod, member, n[b]))
            else:
                self.emit(ind, 'from %s import *' % mod)
        else:
            raise ValueError(k)


def render(shape, naming):
    r = _R(naming)
    r.body(shape.body, 0)
    return '\n'.join(r.lines) + '\n'


def canonical(shape):
    """(text, tree) with unique placeholder identifiers; every slot's AST carrier can be found by name"""
    text = render(shape, placeholders(shape))
    return text


# ---------------------------------------------------------------------------------------- template tree
class Template(object):
    """canonical text parsed by the real ast.parse; carriers[slot] = list of (node, field, index|None)
    whose string must be overwritten to rename the slot."""

    def __init__(self, shape):
        self.shape = shape
        self.text = canonical(shape)
        self.tree = ast.parse(self.text, 'shape.py')
        ph = {v: k for k, v in placeholders(shape).items()}
        self.carriers = {s: [] for s in shape.slots}
        self.read_node = {}
        self.pos = {}           # slot -> (line, col) of the identifier's carrier node
        for node in ast.walk(self.tree):
            if isinstance(node, ast.Name) and node.id in ph:
                s = ph[node.id]
                self.carriers[s].append((node, 'id', None))
                self.pos[s] = (node.lineno, node.col_offset)
                if isinstance(node.ctx, ast.Load):
                    self.read_node[s] = node
            elif isinstance(node, ast.arg) and node.arg in ph:
                s = ph[node.arg]
                self.carriers[s].append((node, 'arg', None))
                self.pos[s] = (node.lineno, node.col_offset)
            elif isinstance(node, (ast.FunctionDef, ast.AsyncFunctionDef, ast.ClassDef)) and node.name in ph:
                s = ph[node.name]
                self.carriers[s].append((node, 'name', None))
                self.pos[s] = (node.lineno, node.col_offset)
            elif isinstance(node, ast.ExceptHandler) and node.name in ph:
                s = ph[node.name]
                self.carriers[s].append((node, 'name', None))
                self.pos[s] = (node.lineno, node.col_offset)
            elif isinstance(node, (ast.Global, ast.Nonlocal)):
                for i, nm in enumerate(node.names):
                    if nm in ph:
                        self.carriers[ph[nm]].append((node, 'names', i))
                        self.pos[ph[nm]] = (node.lineno, node.col_offset)
            elif isinstance(node, ast.alias):
                nm = node.asname or node.name
                if nm in ph:
                    self.carriers[ph[nm]].append((node, 'asname' if node.asname else 'name', None))
        missing = [s for s in shape.slots if not self.carriers[s]]
        if missing:
            raise ValueError('slots without carrier: %r in\n%s' % (missing, self.text))

    def fresh_tree(self):
        """a new parse (supp annotates the tree in place) and its carriers"""
        return Template(self.shape)

    def substitute(self, naming):
        for s, cs in self.carriers.items():
            for node, field, idx in cs:
                if idx is None:
                    setattr(node, field, naming[s])
                else:
                    getattr(node, field)[idx] = naming[s]
        return self.tree


def canon_naming(shape, pattern):
    """pattern: dict slot -> class index; returns valid distinct identifiers per class"""
    return {s: 'n%s' % chr(ord('a') + pattern[s]) for s in shape.slots}


def partitions(slots):
    """all set partitions (restricted growth strings) of the slot list"""
    slots = list(slots)

    def rec(i, cur, mx):
        if i == len(slots):
            yield dict(zip(slots, cur))
            return
        for c in range(mx + 2):
            yield from rec(i + 1, cur + [c], max(mx, c))
    if not slots:
        yield {}
        return
    yield from rec(1, [0], 0)


def var_partitions(shape, limit=300):
    """equality patterns of the shape's identifier *variables* (tie groups), as slot -> class dicts;
    at most `limit` of them (restricted-growth order: all-equal first, all-distinct last is NOT guaranteed
    under the cap, so the all-distinct pattern is always appended)"""
    n = len(shape.groups)
    out = []
    for i, part in enumerate(partitions(range(n))):
        if i >= limit:
            break
        out.append({s: part[shape.var_of[s]] for s in shape.slots})
    distinct = {s: shape.var_of[s] for s in shape.slots}
    if distinct not in out:
        out.append(distinct)
    return out
