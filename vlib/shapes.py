"""Shape families: named shapes (from the repository's tests, the reconnaissance defects, the anchors of
the properties) and a deterministic enumerator of small shapes per sub-grammar."""
import itertools
import random

from vlib.family import Shape

R = lambda i: [('r', i)]


def A(b, e=None):
    return ('assign', 'simple', [b], e or [])


def X(r):
    return ('expr', [('r', r)])


def named():
    S = []
    add = lambda name, body, note='', ties=None: S.append(Shape(name, body, note=note, ties=ties))
    # --- straight-line / if
    add('seq', [A(0), X(1), A(2), X(3)])
    add('if_else', [A(0), ('if', [], [A(1)], [A(2)]), X(3)])
    add('if_noelse', [('if', R(0), [A(1)], []), X(2)])
    add('self_rhs', [A(0, R(1)), X(2)])
    add('nested_if', [('if', [], [('if', [], [A(0)], [A(1)])], []), X(2)])
    # --- loops
    add('for_basic', [('for', [0], R(1), [X(2), A(3)], [X(4)]), X(5)], ties=[[2, 4]])
    add('for_carried_nested', [('for', [0], [], [('if', [], [X(1)], []), A(2)], [])],
        'loop-carried name read inside a nested branch of the loop body')
    add('while_carried', [('while', R(0), [X(1), A(2)], [X(3)])])
    add('while_nested_carried', [A(0), ('while', [], [('if', [], [X(1)], [A(2)]), A(3)], []), X(4)])
    add('for_else_break', [('for', [0], [], [('if', [], [A(1), ('break',)], [])], [A(2)]), X(3)])
    add('for_continue', [('for', [0], [], [('if', [], [('continue',)], []), A(1)], []), X(2)])
    add('nested_loops', [('for', [0], [], [('for', [1], [], [X(2)], []), A(3)], []), X(4)])
    # --- try
    add('try_basic', [('try', [A(0)], [(None, None, [X(1)])], [X(2)], []), X(3)])
    add('try_finally', [('try', [A(0)], [(None, 1, [A(2)])], [A(3)], [X(4), A(5)]), X(6)], ties=[[0, 3], [4, 6]])
    add('try_as', [A(0), ('try', [('if', [], [('raise',)], [])], [(R(1), 2, [X(3)])], [], []), X(4)])
    add('try_in_loop', [('for', [0], [], [('try', [A(1)], [(None, None, [X(2)])], [], [])], []), X(3)])
    # --- with / walrus / assignment forms
    add('with_as', [('with', [(R(0), 1)], [X(2)]), X(3)])
    add('with_two', [('with', [(R(0), 1), (R(2), 3)], [X(4)])])
    add('with_two_pre', [A(0), ('with', [(R(1), 2), (R(3), 4)], [X(5)])],
        'second context expression reads the name bound by the first item', ties=[[0, 1]])
    add('for_carried_nested_test', [A(0), ('for', [1], [], [('if', R(2), [X(3)], []), A(4)], [])],
        'loop-carried name read inside a nested branch; a read in the loop start region is queried first')
    add('while_carried_pre', [A(0), ('while', R(1), [('if', R(2), [X(3)], []), A(4)], [X(5)])], ties=[[1, 2]])
    add('walrus_if', [('if', [('w', 0, R(1))], [X(2)], [X(3)])])
    add('walrus_while', [('while', [('w', 0, [])], [X(1)], []), X(2)])
    add('chain_tuple', [('assign', 'chain', [0, 1], []), ('assign', 'tuple', [2, 3], R(4)), X(5)], ties=[[4, 5]])
    add('star_ann', [('assign', 'star', [0, 1], []), ('assign', 'ann', [2], R(3)), X(4)])
    # --- functions
    add('def_params', [('def', 0, [('arg', 1, None, None), ('arg', 2, R(3), None)], [], None, [X(4), A(5), X(6)]),
                       ('call', 7)], ties=[[0, 7], [4, 6], [2, 5]])
    add('def_kwonly_default', [A(0), ('def', 1, [('kwonly', 2, R(3), None)], [], None, [X(4)]), ('call', 5)],
        'keyword-only default reads an outer name', ties=[[1, 5]])
    add('def_posonly', [('def', 0, [('posonly', 1, None, None), ('arg', 2, None, None)], [], None, [X(3)]),
                        ('call', 4)], 'positional-only parameter')
    add('def_varargs', [('def', 0, [('arg', 1, None, None), ('vararg', 2, None, None), ('kwonly', 3, None, None),
                                    ('kwarg', 4, None, None)], [], None, [X(5), X(6)]), ('call', 7)], ties=[[0, 7], [1, 3, 4]])
    add('def_decorator_ann', [A(0), ('def', 1, [('arg', 2, None, R(3))], [R(4)], R(5), [X(6)])], ties=[[3, 4, 5]])
    add('def_closure', [('def', 0, [], [], None, [A(1), ('def', 2, [], [], None, [X(3)]), ('call', 4)]),
                        ('call', 5)], ties=[[0, 5], [2, 4]])
    add('def_global', [A(0), ('def', 1, [], [], None, [('global', [2]), A(3), X(4)]), ('call', 5), X(6)], ties=[[1, 5], [2, 3]])
    add('def_nonlocal', [('def', 0, [], [], None,
                          [A(1), ('def', 2, [], [], None, [('nonlocal', [3]), X(4), A(5), X(6)]), ('call', 7), X(8)]),
                         ('call', 9)], 'nonlocal followed by assignment in the inner function',
        ties=[[0, 9], [2, 7], [1, 3], [4, 6, 8]])
    add('def_local_shadow', [A(0), ('def', 1, [], [], None, [X(2), A(3)]), ('call', 4)],
        'read of a function-local name before its binding: never satisfied by the outer binding')
    add('def_return', [('def', 0, [], [], None, [('if', [], [('return', R(1))], []), A(2), X(3)]), ('call', 4)])
    add('def_recursive', [('def', 0, [], [], None, [('if', [], [('call', 1)], [])]), ('call', 2)])
    add('lambda_default', [A(0), ('expr', [('lam', [('arg', 1, R(2), None)], R(3), True)])])
    add('lambda_kwonly', [A(0), ('expr', [('lam', [('kwonly', 1, R(2), None)], R(3), True)])])
    # --- classes
    add('class_basic', [A(0), ('class', 1, [R(2)], [], [], [A(3), X(4), ('def', 5, [], [], None, [X(6)]),
                                                            ('call', 7)]), X(8)], ties=[[5, 7], [4, 6, 8], [0, 2]])
    add('class_keyword', [A(0), ('class', 1, [], [R(2)], [R(3)], [X(4)])], 'class keyword and decorator reads')
    add('class_in_def', [('def', 0, [], [], None, [A(1), ('class', 2, [], [], [], [X(3), A(4), X(5)])]),
                         ('call', 6)], ties=[[0, 6], [3, 5]])
    # --- comprehensions
    add('comp_list', [A(0), ('expr', [('comp', 'list', [([1], R(2), [R(3)])], R(4))]), X(5)], ties=[[3, 4]])
    add('comp_nested', [('expr', [('comp', 'list', [([0], R(1), []), ([2], R(3), [])], R(4))])])
    add('comp_dict_set_gen', [A(0), ('expr', [('comp', 'dict', [([1], R(2), [])], R(3), R(4))]),
                              ('expr', [('comp', 'set', [([5], [], [])], R(6))]),
                              ('expr', [('comp', 'gen', [([7], [], [])], R(8))])], ties=[[1, 5, 7], [3, 4], [6, 8]])
    add('comp_in_def_shadow', [A(0), ('def', 1, [], [], None,
                                      [X(2), ('expr', [('comp', 'list', [([3], R(4), [])], R(5))]), X(6)]), ('call', 7)],
        'a comprehension variable is not a local of the enclosing function: it must not hide an outer name there',
        ties=[[1, 7], [2, 6]])
    add('while_test_comp', [A(0), ('while', [('r', 1), ('comp', 'list', [([2], R(3), [])], R(4))], [X(5), A(6)], [])],
        'while test that contains a comprehension after a plain read: the back edge must reach the whole test',
        ties=[[1, 5], [3, 4]])
    add('try_handler_nested', [('try', [A(0)], [(None, None, [('if', [], [X(1)], []), A(2)])], [A(3)], []), X(4)],
        'binding made in an except handler after a nested compound statement', ties=[[0, 3]])
    add('try_handler_nested_fin', [A(0), ('try', [('pass',)], [(None, 1, [('for', [2], [], [('pass',)], []), A(3)])], [],
                                   [X(4)]), X(5)], ties=[[4, 5]])
    add('class_in_class', [A(0), ('class', 1, [], [], [], [A(2), ('class', 3, [], [], [], [X(4), A(5), X(6)])])],
        'a class nested in a class body does not see the outer class body', ties=[[0, 2, 4, 6]])
    add('nonlocal_twice', [('def', 0, [], [], None,
                            [A(1), A(2), ('def', 3, [], [], None,
                                          [('nonlocal', [4]), ('nonlocal', [5]), A(6), X(7), A(8), X(9)]),
                             ('call', 10), X(11)]), ('call', 12)],
        'two nonlocal statements in one function', ties=[[0, 12], [3, 10], [1, 4, 6, 7, 11], [2, 5, 8, 9]])
    add('global_in_nested', [A(0), ('def', 1, [], [], None,
                                    [A(2), ('def', 3, [], [], None, [('global', [4]), X(5), A(6), X(7)]),
                                     ('call', 8), X(9)]), ('call', 10), X(11)],
        'global declared in a function nested in a function that has a local of the same name',
        ties=[[1, 10], [3, 8], [0, 2, 4, 5, 6, 7, 9, 11]])
    for kind, stmt in (('while', ('while', [], [A(0)], [])), ('for', ('for', [0], [], [('pass',)], [])),
                       ('if', ('if', [], [A(0)], [])), ('try', ('try', [A(0)], [(None, None, [('pass',)])], [], [])),
                       ('with', ('with', [([], 0)], [('pass',)])),
                       ('comp', ('expr', [('comp', 'list', [([0], [], [])], [])]))):
        add('closure_after_' + kind, [stmt, A(1), ('def', 2, [], [], None, [X(3), X(4)]), ('call', 5)],
            'bindings made after a compound statement are visible from a function defined later', ties=[[2, 5]])
        add('closure_after_%s_in_def' % kind,
            [('def', 6, [], [], None, [stmt, A(1), ('def', 2, [], [], None, [X(3), X(4)]), ('call', 5)]), ('call', 7)],
            ties=[[2, 5], [6, 7]])
    add('nested_loops_if', [A(0), ('for', [1], [], [('while', [], [('if', [], [X(2)], []), A(3)], []), A(4)], []), X(5)],
        'inner loop with a nested branch inside an outer loop (tables memoised during nested back-edge resolution)',
        ties=[[0, 2, 3, 4, 5]])
    add('nested_loops_try', [('for', [0], [], [('for', [1], [], [('try', [X(2)], [(None, None, [A(3)])], [], []), A(4)], []),
                                                X(5)], [])], ties=[[2, 5], [3, 4]])
    add('assign_call_value', [A(0), ('assign', 'simple', [1], [('callx', [('r', 2), ('r', 3)])]), X(4)],
        'the value of an assignment is a call with arguments that read the assigned name', ties=[[0, 1, 2, 4]])
    add('ann_walrus_call_value', [A(0), ('assign', 'ann', [1], [('callx', [('r', 2), ('r', 3)])]),
                                  ('if', [('w', 4, [('callx', [('r', 5), ('r', 6)])])], [X(7)], [])],
        ties=[[0, 1, 2], [4, 5, 7], [3, 6]])
    add('method_closure_in_def', [('def', 0, [('arg', 1, None, None)], [], None,
                                   [('class', 2, [], [], [], [('def', 3, [('arg', 4, None, None)], [], None, [X(5)]),
                                                              ('call', 6)])]), ('call', 7)],
        'a method of a class defined inside a function reads a parameter of that function', ties=[[0, 7], [3, 6], [1, 5]])
    add('if_test_comp_walrus', [A(0), ('if', [('comp', 'list', [([1], R(2), [])], R(3)), ('w', 4, [])], [X(5)], [X(6)]), X(7)],
        'if test with a comprehension followed by a walrus', ties=[[0, 2], [1, 3], [4, 5, 6, 7]])
    add('elif_test_comp_walrus', [('if', [], [('pass',)], [('if', [('comp', 'gen', [([0], [], [])], [('w', 1, R(2))])],
                                                           [X(3)], [])]), X(4)], ties=[[0, 2], [1, 3, 4]])
    add('def_first_decorated_class', [('def', 0, [('arg', 1, None, None)], [], None,
                                       [('class', 2, [], [], [R(3)], [('pass',)]), X(4)]), ('call', 5)],
        'parameter read in the decorator of a class that is the first statement of the function', ties=[[0, 5], [1, 3], [2, 4]])
    add('def_first_decorated_def', [('def', 0, [('arg', 1, None, None)], [], None,
                                     [('def', 2, [], [R(3)], None, [('pass',)]), X(4)]), ('call', 5)],
        ties=[[0, 5], [1, 3], [2, 4]])
    add('except_name_local', [A(0), ('def', 1, [], [], None,
                                     [('try', [X(2)], [(None, 3, [('pass',)])], [X(4)], []), X(5)]), ('call', 6)],
        'the name of an except clause is a local of the function, also outside the handler',
        ties=[[0, 2, 3, 4, 5], [1, 6]])
    add('global_in_nested_nomod', [('def', 0, [], [], None,
                                    [A(1), ('def', 2, [], [], None, [('global', [3]), X(4)]), ('call', 5), X(6)]), ('call', 7)],
        'global declared in a nested function, bound only by the enclosing function, never by the module',
        ties=[[0, 7], [2, 5], [1, 3, 4, 6]])
    add('global_in_bare_nested', [A(0), ('def', 1, [], [], None,
                                         [A(2), ('def', 3, [], [], None, [('global', [4]), X(5)]), ('call', 6)]), ('call', 7)],
        'the nested function has no locals and no parameters', ties=[[1, 7], [3, 6], [0, 2, 4, 5]])
    add('assign_walrus_value', [A(0), A(1), ('assign', 'simple', [2], [('w', 3, [('r', 4)]), ('r', 5)]), X(6), X(7)],
        'a walrus nested in the value of an assignment on one line, read again in the same value',
        ties=[[0, 4], [3, 5, 7], [2, 6]])
    add('with_first_decorated', [A(0), ('with', [(R(1), 2)], [('def', 3, [], [R(4)], None, [('pass',)]), X(5)])],
        'the with target is read in the decorator of a def that is the first statement of the body', ties=[[0, 1], [2, 4], [3, 5]])
    add('except_first_decorated', [('try', [('pass',)], [(None, 0, [('class', 1, [], [], [R(2)], [('pass',)]), X(3)])], [], [])],
        'the except name is read in the decorator of a class that is the first statement of the handler', ties=[[0, 2], [1, 3]])
    add('for_first_decorated', [('for', [0], [], [('def', 1, [], [R(2)], None, [('pass',)]), X(3)], [])],
        ties=[[0, 2], [1, 3]])
    add('class_lambda_noparam', [A(0), ('class', 1, [], [], [], [A(2), ('expr', [('lam', [], R(3), True)]), ('assign', 'simple', [4], [('lam', [], R(5), False)])])],
        'a parameterless lambda written directly in a class body reads a name the class has bound', ties=[[0, 2, 3, 5], [1, 4]])
    add('def_lambda_noparam', [A(0), ('def', 1, [], [], None, [A(2), ('expr', [('lam', [], R(3), True)]), X(4)]), ('call', 5)],
        ties=[[0, 2, 3, 4], [1, 5]])
    add('for_continue_then_break', [('for', [0], [], [('if', [], [X(1)], []), ('if', [], [A(2), ('continue',)], []), ('break',)], []), X(3)],
        'the loop body ends in break but an earlier branch continues: a name bound before the continue is read at the top of the next trip',
        ties=[[1, 2, 3]])
    add('while_continue_then_return', [('def', 0, [], [], None, [('while', [], [('if', [], [X(1)], []), ('if', [], [A(2), ('continue',)], []), ('return', None)], []), X(3)]),
                                       ('call', 4)], ties=[[1, 2, 3], [0, 4]])
    add('comp_in_class', [('class', 0, [], [], [], [A(1), ('expr', [('comp', 'list', [([2], R(3), [])], R(4))])])])
    return S


def _bodies(depth, budget, ids, in_loop, in_func):
    """enumerate statement lists; ids is an iterator of fresh slot numbers"""
    raise NotImplementedError


def enumerate_small(max_stmts=3, seed=0, limit=200):
    """deterministic family over the structured fragment (C02/C03 domain): assign / read / if / for / while /
    try, nesting <= 2.  Slots are numbered in textual order."""
    out = []
    leafs = ['A', 'X']
    comps = ['if', 'ifelse', 'for', 'forelse', 'while', 'try', 'tryelse', 'tryfin']

    def build(spec):
        ctr = itertools.count()

        def stmt(t):
            if t == 'A':
                return A(next(ctr))
            if t == 'X':
                return X(next(ctr))
            kind, inner, inner2 = t
            if kind == 'if':
                return ('if', [], [stmt(x) for x in inner], [])
            if kind == 'ifelse':
                return ('if', [], [stmt(x) for x in inner], [stmt(x) for x in inner2])
            if kind == 'for':
                b = next(ctr)
                return ('for', [b], [], [stmt(x) for x in inner], [])
            if kind == 'forelse':
                b = next(ctr)
                return ('for', [b], [], [stmt(x) for x in inner], [stmt(x) for x in inner2])
            if kind == 'while':
                return ('while', [], [stmt(x) for x in inner], [])
            if kind == 'try':
                return ('try', [stmt(x) for x in inner], [(None, None, [stmt(x) for x in inner2])], [], [])
            if kind == 'tryelse':
                return ('try', [stmt(x) for x in inner], [(None, None, [A(next(ctr))])], [stmt(x) for x in inner2], [])
            if kind == 'tryfin':
                return ('try', [stmt(x) for x in inner], [(None, None, [('pass',)])], [], [stmt(x) for x in inner2])
            raise ValueError(kind)
        return [stmt(t) for t in spec]

    inner_opts = [['A'], ['X'], ['X', 'A'], ['A', 'X'], [('if', ['X'], []), 'A'], [('if', ['A'], []), 'X'],
                  [('ifelse', ['A'], ['X']), 'A']]
    specs = []
    for c in comps:
        for i1 in inner_opts:
            for i2 in ([[]] if c in ('if', 'for', 'while') else [['A'], ['X'], [('if', ['X'], []), 'A']]):
                for pre in ([], ['A']):
                    for post in (['X'], ['A', 'X']):
                        specs.append(pre + [(c, i1, i2)] + post)
    rnd = random.Random(seed)
    rnd.shuffle(specs)
    for i, sp in enumerate(specs[:limit]):
        body = build(sp)
        sh = Shape('enum_%04d' % i, body)
        if 2 <= len(sh.slots) <= 7 and sh.reads():
            out.append(sh)
    return out
