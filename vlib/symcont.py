"""Symbolic-friendly containers + a source-to-source transform that makes supp's analysis modules use them.

Why: every Python dict/set hashes its keys, and CrossHair must *realise* a symbolic string to hash it, which
turns "for all identifiers" into an enumeration of concrete strings.  Under this transform, dict/set displays,
comprehensions and set()/dict() calls inside the listed supp modules build SymDict/SymSet instead: ordered
association lists that only ever compare keys with ==.  A lookup then forks on *equality* of identifiers, so
one path stands for every assignment of strings with that equality pattern.

The transform is applied to the current source of /repo/supp on every run (import hook); nothing is written
back.  SymDict/SymSet implement the documented dict/set semantics supp relies on (insertion order, overwrite in
place, update, difference, ...); the transformed modules are validated natively on every run against the
untransformed ones (vlib/family.py: validate_transform) and by running the repository's own scope tests
through them (thorough tier).
"""
import ast
import importlib.abc
import importlib.machinery
import importlib.util
import os
import sys

TRANSFORMED = ('supp.scope', 'supp.name', 'supp.merged_dict', 'supp.nast', 'supp.util', 'supp.linter',
               'supp.evaluator')


def _same(a, b):
    if a is b:
        return True
    ta, tb = type(a), type(b)
    # objects without value equality (Name, Flow, ...) are only equal by identity; avoid calling == on
    # mixed types, which for str-vs-object is simply False
    sa = isinstance(a, str)
    sb = isinstance(b, str)
    if sa != sb:
        return False
    return bool(a == b)


class SymDict(object):
    __slots__ = ('_k', '_v')

    def __init__(self, src=(), **kw):
        self._k = []
        self._v = []
        if src is not None:
            self.update(src)
        if kw:
            self.update(kw)

    @classmethod
    def fromkeys(cls, keys, value=None):
        d = cls()
        for k in keys:
            d[k] = value
        return d

    def _find(self, key):
        for i in range(len(self._k)):
            if _same(self._k[i], key):
                return i
        return -1

    def __getitem__(self, key):
        i = self._find(key)
        if i < 0:
            raise KeyError(key)
        return self._v[i]

    def __setitem__(self, key, value):
        i = self._find(key)
        if i < 0:
            self._k.append(key)
            self._v.append(value)
        else:
            self._v[i] = value

    def __delitem__(self, key):
        i = self._find(key)
        if i < 0:
            raise KeyError(key)
        del self._k[i]
        del self._v[i]

    def __contains__(self, key):
        return self._find(key) >= 0

    def __iter__(self):
        return iter(list(self._k))

    def __len__(self):
        return len(self._k)

    def __bool__(self):
        return len(self._k) > 0

    def get(self, key, default=None):
        i = self._find(key)
        return default if i < 0 else self._v[i]

    def setdefault(self, key, default=None):
        i = self._find(key)
        if i < 0:
            self._k.append(key)
            self._v.append(default)
            return default
        return self._v[i]

    def pop(self, key, *d):
        i = self._find(key)
        if i < 0:
            if d:
                return d[0]
            raise KeyError(key)
        v = self._v[i]
        del self._k[i]
        del self._v[i]
        return v

    def update(self, src=(), **kw):
        if hasattr(src, 'keys'):
            for k in src.keys():
                self[k] = src[k]
        else:
            for k, v in src:
                self[k] = v
        for k, v in kw.items():
            self[k] = v

    def keys(self):
        return list(self._k)

    def values(self):
        return list(self._v)

    def items(self):
        return list(zip(self._k, self._v))

    def copy(self):
        d = SymDict()
        d._k = list(self._k)
        d._v = list(self._v)
        return d

    def clear(self):
        self._k = []
        self._v = []

    def __eq__(self, other):
        if not hasattr(other, 'keys'):
            return NotImplemented
        if len(self) != len(other):
            return False
        return all(k in other and _same(other[k], v) or (k in other and other[k] == v) for k, v in self.items())

    def __ne__(self, other):
        r = self.__eq__(other)
        return r if r is NotImplemented else not r

    __hash__ = None

    def __repr__(self):
        return 'SymDict(%r)' % (self.items(),)


class SymSet(object):
    __slots__ = ('_e',)

    def __init__(self, src=()):
        self._e = []
        for x in src:
            self.add(x)

    def _has(self, x):
        for y in self._e:
            if _same(y, x):
                return True
        return False

    def add(self, x):
        if not self._has(x):
            self._e.append(x)

    def update(self, *srcs):
        for s in srcs:
            for x in s:
                self.add(x)

    def remove(self, x):
        for i, y in enumerate(self._e):
            if _same(y, x):
                del self._e[i]
                return
        raise KeyError(x)

    def discard(self, x):
        for i, y in enumerate(self._e):
            if _same(y, x):
                del self._e[i]
                return

    def __contains__(self, x):
        return self._has(x)

    def __iter__(self):
        return iter(list(self._e))

    def __len__(self):
        return len(self._e)

    def __bool__(self):
        return len(self._e) > 0

    def difference(self, *others):
        out = SymSet()
        for x in self._e:
            if not any(x in o for o in others):
                out._e.append(x)
        return out

    __sub__ = difference

    def union(self, *others):
        out = SymSet(self._e)
        out.update(*others)
        return out

    def __or__(self, o):
        return self.union(o)

    def __ror__(self, o):
        return SymSet(o).union(self)

    def intersection(self, o):
        return SymSet(x for x in self._e if x in o)

    __and__ = intersection

    def copy(self):
        return SymSet(self._e)

    def __eq__(self, o):
        try:
            return len(self) == len(o) and all(x in o for x in self._e)
        except TypeError:
            return NotImplemented

    __hash__ = None

    def __repr__(self):
        return 'SymSet(%r)' % (self._e,)


class _T(ast.NodeTransformer):
    def visit_Dict(self, node):
        self.generic_visit(node)
        if any(k is None for k in node.keys):
            return node     # ** unpacking: leave alone
        return ast.copy_location(ast.Call(
            func=ast.Name('SymDict_', ast.Load()),
            args=[ast.List([ast.Tuple([k, v], ast.Load()) for k, v in zip(node.keys, node.values)], ast.Load())],
            keywords=[]), node)

    def visit_DictComp(self, node):
        self.generic_visit(node)
        return ast.copy_location(ast.Call(
            func=ast.Name('SymDict_', ast.Load()),
            args=[ast.ListComp(ast.Tuple([node.key, node.value], ast.Load()), node.generators)],
            keywords=[]), node)

    def visit_Set(self, node):
        self.generic_visit(node)
        return ast.copy_location(ast.Call(func=ast.Name('SymSet_', ast.Load()),
                                          args=[ast.List(node.elts, ast.Load())], keywords=[]), node)

    def visit_SetComp(self, node):
        self.generic_visit(node)
        return ast.copy_location(ast.Call(func=ast.Name('SymSet_', ast.Load()),
                                          args=[ast.ListComp(node.elt, node.generators)], keywords=[]), node)

    def visit_Name(self, node):
        if isinstance(node.ctx, ast.Load) and node.id == 'set':
            return ast.copy_location(ast.Name('SymSet_', ast.Load()), node)
        if isinstance(node.ctx, ast.Load) and node.id == 'dict':
            return ast.copy_location(ast.Name('SymDict_', ast.Load()), node)
        return node


def transform_source(src, filename):
    tree = ast.parse(src, filename)
    tree = _T().visit(tree)
    ast.fix_missing_locations(tree)
    return compile(tree, filename, 'exec')


class _Loader(importlib.abc.Loader):
    def __init__(self, fullname, path):
        self.fullname, self.path = fullname, path

    def create_module(self, spec):
        return None

    def exec_module(self, module):
        src = open(self.path).read()
        module.__dict__['SymDict_'] = SymDict
        module.__dict__['SymSet_'] = SymSet
        exec(transform_source(src, self.path), module.__dict__)


class _Finder(importlib.abc.MetaPathFinder):
    def __init__(self, root):
        self.root = root

    def find_spec(self, fullname, path, target=None):
        if fullname in TRANSFORMED:
            p = os.path.join(self.root, *fullname.split('.')) + '.py'
            if os.path.exists(p):
                return importlib.util.spec_from_loader(fullname, _Loader(fullname, p), origin=p)
        return None


def install(repo=None):
    repo = repo or os.environ.get('VERIF_REPO', '/repo')
    """must run before supp.* is imported in this process"""
    for m in list(sys.modules):
        if m == 'supp' or m.startswith('supp.'):
            del sys.modules[m]
    sys.meta_path.insert(0, _Finder(repo))
