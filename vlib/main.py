"""./check CXX [--tier quick|thorough] [--replay FILE]"""
import argparse
import importlib
import json
import os
import sys


def main():
    ap = argparse.ArgumentParser()
    ap.add_argument('prop')
    ap.add_argument('--tier', default='quick', choices=['quick', 'thorough'])
    ap.add_argument('--replay')
    a = ap.parse_args()
    tier = os.environ.get('VERIF_TIER') or a.tier
    if tier not in ('quick', 'thorough'):
        tier = a.tier
    try:
        seed = int(os.environ.get('VERIF_SEED', '0'))
    except ValueError:
        seed = 0
    pid = a.prop.upper()
    mod = importlib.import_module('props.' + pid.lower())
    if a.replay:
        obj = json.load(open(a.replay))
        rc = mod.replay_file(obj)
        sys.exit(rc)
    sys.exit(mod.run(tier, seed))


if __name__ == '__main__':
    main()
