"""CPython execution oracle for the shape DSL: renders a shape with hooks and executes it under the real
interpreter, for a given decision vector.  Used natively only (validation of vlib/refsem.py on every run,
and confirmation of every candidate before it is reported); never under CrossHair.

Hooks (all names start with '_', outside the identifier alphabet of the shapes):
  _u(_p(r), NAME)   read event: _p records the attempt, evaluating NAME may raise NameError, _u records the site
  _v(sites, *a)     value for a binding (carries its binding slots);  _d(*a) decision;  _it(sites, *a) iterable
"""
import itertools

from vlib.family import _R
from vlib.refsem import Oracle, MAX_TRIPS, MAX_DEPTH, UNBOUND, BUILTIN


class HookError(BaseException):
    pass


class Val(object):
    def __init__(self, sites, fn=None, params=None):
        self.sites = list(sites)
        self.fn = fn
        self.params = params


class _H(_R):
    """hooked renderer"""

    def __init__(self, naming):
        _R.__init__(self, naming, hooked=True)
        self.ctr = itertools.count()

    def args(self, e):
        return ', '.join(self.atom(a) for a in e or [])

    def E(self, e):
        return '_e(%s)' % self.args(e)

    def atom(self, a):
        k = a[0]
        n = self.n
        if k == 'r':
            return '_u(_p(%d), %s)' % (a[1], n[a[1]])
        if k == 'w':
            return '(%s := _v([%d], %s))' % (n[a[1]], a[1], self.args(a[2]))
        if k == 'callx':
            return '_e(%s)' % self.args(a[1])
        if k == 'lam':
            ps = self.params(a[1])
            info = [(kind, b) for kind, b, d, ann in a[1]]
            return '_lam(lambda %s: %s, %r, %r)' % (ps, self.E(a[2]), info, bool(a[3]))
        if k == 'comp':
            gens = []
            for bs, it, ifs in a[2]:
                tgt = ', '.join(n[b] for b in bs)
                g = 'for %s in _it(%r, %s)' % (tgt, list(bs), self.args(it))
                for i in ifs:
                    g += ' if _d(%s)' % self.args(i)
                gens.append(g)
            gens = ' '.join(gens)
            elt = self.E(a[3])
            if a[1] == 'list':
                return '[%s %s]' % (elt, gens)
            if a[1] == 'set':
                return '{%s %s}' % (elt, gens)
            if a[1] == 'gen':
                return '_consume(%s %s)' % (elt, gens)
            return '{%s: %s %s}' % ('_k(%s)' % self.args(a[4] if len(a) > 4 else []), elt, gens)
        raise ValueError(a)

    def params(self, ps):
        # defaults / annotations through _e(...)
        return _R.params(self, ps)

    def stmt(self, s, ind):
        k = s[0]
        n = self.n
        if k == 'assign':
            kind, bs, e = s[1], s[2], s[3]
            if kind in ('simple', 'ann'):
                ann = ': int' if kind == 'ann' else ''
                self.emit(ind, '%s%s = _v([%d], %s)' % (n[bs[0]], ann, bs[0], self.args(e)))
            elif kind == 'chain':
                self.emit(ind, ' = '.join(n[b] for b in bs) + ' = _v(%r, %s)' % (list(bs), self.args(e)))
            elif kind == 'tuple':
                self.emit(ind, ', '.join(n[b] for b in bs) + ' = _vt(%r, %s)' % (list(bs), self.args(e)))
            elif kind == 'star':
                self.emit(ind, ', '.join(n[b] for b in bs[:-1]) + ', *' + n[bs[-1]] +
                          ' = _vt(%r, %s)' % (list(bs), self.args(e)))
        elif k == 'expr':
            self.emit(ind, self.E(s[1]))
        elif k == 'if':
            self.emit(ind, 'if _d(%s):' % self.args(s[1]))
            self.body(s[2], ind + 1)
            if s[3]:
                self.emit(ind, 'else:')
                self.body(s[3], ind + 1)
        elif k == 'for':
            self.emit(ind, 'for %s in _it(%r, %s):' % (', '.join(n[b] for b in s[1]), list(s[1]), self.args(s[2])))
            self.body(s[3], ind + 1)
            if s[4]:
                self.emit(ind, 'else:')
                self.body(s[4], ind + 1)
        elif k == 'while':
            c = '_c%d' % next(self.ctr)
            self.emit(ind, '%s = _ctr()' % c)
            self.emit(ind, 'while _dw(%s, %s):' % (c, self.args(s[1])))
            self.body(s[2], ind + 1)
            if s[3]:
                self.emit(ind, 'else:')
                self.body(s[3], ind + 1)
        elif k == 'try':
            self.emit(ind, 'try:')
            if s[2]:
                t = '_t%d' % next(self.ctr)
                self.emit(ind + 1, '%s = _mr()' % t)
            self.body(s[1], ind + 1)
            if s[2]:
                self.emit(ind + 1, '_mre(%s)' % t)
            for et, b, hb in s[2]:
                t = 'except _exc(%s)' % self.args(et)
                if b is not None:
                    t += ' as ' + n[b]
                self.emit(ind, t + ':')
                if b is not None:
                    self.emit(ind + 1, '%s = _v([%d])' % (n[b], b))
                self.body(hb, ind + 1)
            if s[3]:
                self.emit(ind, 'else:')
                self.body(s[3], ind + 1)
            if s[4]:
                self.emit(ind, 'finally:')
                self.body(s[4], ind + 1)
        elif k == 'with':
            items = []
            for e, b in s[1]:
                items.append('_cm(%r, %s)' % ([b] if b is not None else [], self.args(e)) +
                             (' as ' + n[b] if b is not None else ''))
            self.emit(ind, 'with %s:' % ', '.join(items))
            self.body(s[2], ind + 1)
        elif k == 'def':
            for d in s[3]:
                self.emit(ind, '@_deco(%s)' % self.args(d))
            ret = (' -> ' + self.E(s[4])) if s[4] is not None else ''
            self.emit(ind, 'def %s(%s)%s:' % (n[s[1]], self.params(s[2]), ret))
            self.body(s[5], ind + 1)
            info = [(kind, b) for kind, b, d, ann in s[2]]
            self.emit(ind, '%s = _wf(%s, %d, %r)' % (n[s[1]], n[s[1]], s[1], info))
        elif k == 'class':
            for d in s[4]:
                self.emit(ind, '@_deco(%s)' % self.args(d))
            args = ['*_bases(%s)' % ', '.join(self.E(e) for e in s[2])] if s[2] else []
            args += ['metaclass=_meta(%s)' % self.args(e) for e in s[3]]
            self.emit(ind, 'class %s%s:' % (n[s[1]], '(' + ', '.join(args) + ')' if args else ''))
            self.body(s[5], ind + 1)
            self.emit(ind, '%s = _v([%d])' % (n[s[1]], s[1]))
        elif k == 'call':
            self.emit(ind, '_call(_u(_p(%d), %s))' % (s[1], n[s[1]]))
        elif k == 'return':
            self.emit(ind, 'return ' + self.E(s[1]))
        elif k == 'raise':
            self.emit(ind, 'raise Exception("dsl")')
        elif k == 'import':
            kind, b, mod, member = s[1], s[2], s[3], s[4]
            if kind != 'star':
                self.emit(ind, '%s = _v([%d])' % (n[b], b))
            else:
                self.emit(ind, 'pass')
        else:
            _R.stmt(self, s, ind)


def render_hooked(shape, naming):
    r = _H(naming)
    r.body(shape.body, 0)
    return '\n'.join(r.lines) + '\n'


class Run(object):
    def __init__(self, shape, naming, prefix):
        self.shape, self.naming = shape, naming
        self.oracle = Oracle(prefix)
        self.events = []
        self.pending = None
        self.depth = 0
        self.status = 'ok'

    def flush(self):
        if self.pending is not None:
            self.events.append((self.pending, UNBOUND))
            self.pending = None

    # hooks
    def _p(self, r):
        self.flush()
        self.pending = r
        return r

    def _u(self, r, value):
        if self.pending != r:
            raise HookError('read bookkeeping')
        self.pending = None
        site = self.site_of(r, value)
        self.events.append((r, site))
        return value

    def site_of(self, r, value):
        if isinstance(value, (list, tuple)) and len(value) == 1 and isinstance(value[0], Val):
            value = value[0]
        if isinstance(value, Val):
            nm = self.naming[r]
            c = [s for s in value.sites if self.naming[s] == nm]
            if not c:
                raise HookError('value bound at %r read through %r' % (value.sites, r))
            return c[-1]
        if isinstance(value, tuple) and value == ():
            return 'VARARG'
        if isinstance(value, dict) and not value:
            return 'KWARG'
        return BUILTIN

    def _e(self, *a):
        return None

    def _k(self, *a):
        return object()

    def _v(self, sites, *a):
        return Val(sites)

    def _vt(self, sites, *a):
        return tuple(Val([s]) for s in sites)

    def _d(self, *a):
        return self.oracle.choose(2) == 1

    def _ctr(self):
        return [0]

    def _mr(self):
        d = self.oracle.choose(3)
        if d == 1:
            raise Exception('dsl: raise at start of try body')
        return d

    def _mre(self, d):
        if d == 2:
            raise Exception('dsl: raise at end of try body')

    def _dw(self, c, *a):
        if c[0] >= MAX_TRIPS:
            return False
        if self.oracle.choose(2) == 0:
            return False
        c[0] += 1
        return True

    def _it(self, sites, *a):
        trips = self.oracle.choose(MAX_TRIPS + 1)
        out = []
        for _ in range(trips):
            out.append(Val(sites) if len(sites) == 1 else tuple(Val([s]) for s in sites))
        return out

    def _exc(self, *a):
        return Exception

    def _cm(self, sites, *a):
        v = Val(sites)

        class CM(object):
            def __enter__(s):
                return v

            def __exit__(s, *e):
                return False
        return CM()

    def _deco(self, *a):
        return lambda f: f

    def _bases(self, *a):
        return ()

    def _meta(self, *a):
        return type

    def _consume(self, g):
        return list(g)

    def _wf(self, fn, site, params):
        return Val([site], fn=fn, params=params)

    def _lam(self, fn, params, callnow):
        v = Val([], fn=fn, params=params)
        if callnow:
            self._call(v)
        return v

    def _call(self, v):
        if not isinstance(v, Val) or v.fn is None or self.depth >= MAX_DEPTH:
            return
        pos, kw = [], {}
        for kind, b in v.params:
            if kind in ('posonly', 'arg'):
                pos.append(Val([b]))
            elif kind == 'kwonly':
                kw[self.naming[b]] = Val([b])
        self.depth += 1
        try:
            v.fn(*pos, **kw)
        finally:
            self.depth -= 1

    def execute(self):
        text = render_hooked(self.shape, self.naming)
        g = {'__name__': 'shape', '__builtins__': __builtins__}
        for h in ('_mr', '_mre', '_p', '_u', '_e', '_k', '_v', '_vt', '_d', '_ctr', '_dw', '_it', '_exc', '_cm', '_deco', '_bases',
                  '_meta', '_consume', '_wf', '_lam', '_call'):
            g[h] = getattr(self, h)
        try:
            code = compile(text, 'hooked.py', 'exec')
        except SyntaxError as e:
            raise HookError('hooked rendering does not compile: %s\n%s' % (e, text))
        try:
            exec(code, g)
        except Exception:
            self.status = 'exc'
        self.flush()
        return self


def execute(shape, naming, prefix):
    return Run(shape, naming, prefix).execute()


def norm_events(shape, events, from_ref):
    """event sets comparable between refsem and CPython (vararg/kwarg parameter values are untagged)"""
    kinds = param_kinds(shape)
    out = set()
    for r, site in events:
        if from_ref and not isinstance(site, str) and kinds.get(site) == 'vararg':
            site = 'VARARG'
        elif from_ref and not isinstance(site, str) and kinds.get(site) == 'kwarg':
            site = 'KWARG'
        out.add((r, site))
    return out


def param_kinds(shape):
    out = {}

    def E(e):
        for a in e or []:
            if a[0] == 'lam':
                for kind, b, d, ann in a[1]:
                    out[b] = kind
                E(a[2])
            elif a[0] == 'w':
                E(a[2])
            elif a[0] == 'callx':
                E(a[1])
            elif a[0] == 'comp':
                for bs, it, ifs in a[2]:
                    E(it)
                    for i in ifs:
                        E(i)
                E(a[3])

    def S(body):
        for s in body:
            if s[0] == 'def':
                for kind, b, d, ann in s[2]:
                    out[b] = kind
                    E(d)
                S(s[5])
            elif s[0] == 'class':
                S(s[5])
            elif s[0] in ('if',):
                E(s[1]); S(s[2]); S(s[3])
            elif s[0] == 'for':
                E(s[2]); S(s[3]); S(s[4])
            elif s[0] == 'while':
                E(s[1]); S(s[2]); S(s[3])
            elif s[0] == 'try':
                S(s[1])
                for et, b, hb in s[2]:
                    S(hb)
                S(s[3]); S(s[4])
            elif s[0] == 'with':
                S(s[2])
            elif s[0] == 'assign':
                E(s[3])
            elif s[0] == 'expr':
                E(s[1])
    S(shape.body)
    return out


def validate_refsem(shape, naming, cls, builtins):
    """every decision vector: refsem vs real CPython.  Returns (n_executions, list of disagreements)."""
    from vlib import refsem
    bad = []
    n = 0
    for vec, log, it in refsem.all_executions(shape, cls, builtins):
        n += 1
        run = execute(shape, naming, vec)
        if run.oracle.taken != vec or len(run.oracle.arity) != len(vec):
            bad.append('decision sequence differs for %r: CPython took %r' % (vec, run.oracle.taken))
            continue
        a = norm_events(shape, log.events, True)
        b = norm_events(shape, run.events, False)
        if a != b or log.status != run.status:
            bad.append('vector %r: refsem %r/%s, CPython %r/%s' % (vec, sorted(a, key=str), log.status,
                                                                  sorted(b, key=str), run.status))
    return n, bad
