"""MessagePack reference encoder/decoder written from the specification
(https://github.com/msgpack/msgpack/blob/master/spec.md), independent of supp/umsgpack.py.

Streams are flat lists of items: int terms 0..255 (concrete or symbolic) and opaque payload Blobs
(vlib.stubs.msgstubs.Blob, n bytes each).  Value model: None, bool, int, Dbl (bit pattern), SStr (text,
utf-8 payload opaque), Blob (bin), list, dict, SExt(type, Blob).
"""
from vlib.stubs.msgstubs import Blob, SStr, Dbl


class SpecInsufficient(Exception):
    pass


class SpecReserved(Exception):
    pass


class SpecRange(Exception):
    pass


class SExt(object):
    def __init__(self, type, data):
        self.type = type
        self.data = data


def be(v, n):
    """n-byte big-endian two's complement of v"""
    if v < 0:
        v = v + (1 << (8 * n))
    out = []
    for _ in range(n):
        out.append(v % 256)
        v = v // 256
    out.reverse()
    return out


def from_be(items, signed):
    v = 0
    for b in items:
        v = v * 256 + b
    if signed and v >= (1 << (8 * len(items) - 1)):
        v -= 1 << (8 * len(items))
    return v


# ---------------------------------------------------------------- encoder (format choice optional)
INT_FORMATS = ('pfix', 'nfix', 'u8', 'u16', 'u32', 'u64', 'i8', 'i16', 'i32', 'i64')


def int_legal(x, fmt):
    return {
        'pfix': 0 <= x <= 127, 'nfix': -32 <= x <= -1,
        'u8': 0 <= x < 2 ** 8, 'u16': 0 <= x < 2 ** 16, 'u32': 0 <= x < 2 ** 32, 'u64': 0 <= x < 2 ** 64,
        'i8': -2 ** 7 <= x < 2 ** 7, 'i16': -2 ** 15 <= x < 2 ** 15, 'i32': -2 ** 31 <= x < 2 ** 31,
        'i64': -2 ** 63 <= x < 2 ** 63}[fmt]


def enc_int_fmt(x, fmt):
    if fmt == 'pfix':
        return [x]
    if fmt == 'nfix':
        return [x + 256]
    code, n = {'u8': (0xcc, 1), 'u16': (0xcd, 2), 'u32': (0xce, 4), 'u64': (0xcf, 8),
               'i8': (0xd0, 1), 'i16': (0xd1, 2), 'i32': (0xd2, 4), 'i64': (0xd3, 8)}[fmt]
    return [code] + be(x, n)


def enc_int(x):
    """smallest format (what a conforming minimal encoder emits)"""
    if x < -2 ** 63 or x >= 2 ** 64:
        raise SpecRange()
    if x >= 0:
        if x <= 127:
            return enc_int_fmt(x, 'pfix')
        if x < 2 ** 8:
            return enc_int_fmt(x, 'u8')
        if x < 2 ** 16:
            return enc_int_fmt(x, 'u16')
        if x < 2 ** 32:
            return enc_int_fmt(x, 'u32')
        return enc_int_fmt(x, 'u64')
    if x >= -32:
        return enc_int_fmt(x, 'nfix')
    if x >= -2 ** 7:
        return enc_int_fmt(x, 'i8')
    if x >= -2 ** 15:
        return enc_int_fmt(x, 'i16')
    if x >= -2 ** 31:
        return enc_int_fmt(x, 'i32')
    return enc_int_fmt(x, 'i64')


def hdr_str(n, width=None):
    """width None = smallest; 0 = fixstr, 1/2/4 = str8/16/32"""
    if width is None:
        width = 0 if n <= 31 else 1 if n < 2 ** 8 else 2 if n < 2 ** 16 else 4
    if n >= 2 ** 32:
        raise SpecRange()
    if width == 0:
        return [0xa0 + n]
    return [{1: 0xd9, 2: 0xda, 4: 0xdb}[width]] + be(n, width)


def hdr_bin(n, width=None):
    if width is None:
        width = 1 if n < 2 ** 8 else 2 if n < 2 ** 16 else 4
    if n >= 2 ** 32:
        raise SpecRange()
    return [{1: 0xc4, 2: 0xc5, 4: 0xc6}[width]] + be(n, width)


def hdr_array(n, width=None):
    if width is None:
        width = 0 if n <= 15 else 2 if n < 2 ** 16 else 4
    if n >= 2 ** 32:
        raise SpecRange()
    if width == 0:
        return [0x90 + n]
    return [{2: 0xdc, 4: 0xdd}[width]] + be(n, width)


def hdr_map(n, width=None):
    if width is None:
        width = 0 if n <= 15 else 2 if n < 2 ** 16 else 4
    if n >= 2 ** 32:
        raise SpecRange()
    if width == 0:
        return [0x80 + n]
    return [{2: 0xde, 4: 0xdf}[width]] + be(n, width)


def hdr_ext(n, typ, width=None):
    """width None = smallest (fixext for 1,2,4,8,16); 0 = fixext; 1/2/4 = ext8/16/32"""
    if n >= 2 ** 32:
        raise SpecRange()
    if width is None:
        if n == 1 or n == 2 or n == 4 or n == 8 or n == 16:
            width = 0
        else:
            width = 1 if n < 2 ** 8 else 2 if n < 2 ** 16 else 4
    if width == 0:
        code = 0xd4 if n == 1 else 0xd5 if n == 2 else 0xd6 if n == 4 else 0xd7 if n == 8 else 0xd8
        return [code, typ]
    return [{1: 0xc7, 2: 0xc8, 4: 0xc9}[width]] + be(n, width) + [typ]


def enc(v):
    """minimal encoding of a model value"""
    if v is None:
        return [0xc0]
    if v is True:
        return [0xc3]
    if v is False:
        return [0xc2]
    if isinstance(v, Dbl):
        return [0xcb] + be(v.bits, 8)
    if isinstance(v, int):
        return enc_int(v)
    if isinstance(v, SStr):
        return hdr_str(v.blob.n) + [v.blob]
    if isinstance(v, Blob):
        return hdr_bin(v.n) + [v]
    if isinstance(v, (list, tuple)):
        out = hdr_array(len(v))
        for e in v:
            out += enc(e)
        return out
    if isinstance(v, dict):
        out = hdr_map(len(v))
        for k, e in v.items():
            out += enc(k) + enc(e)
        return out
    if isinstance(v, SExt):
        return hdr_ext(v.data.n, v.type) + [v.data]
    raise TypeError(type(v))


# ---------------------------------------------------------------- decoder
class Cur(object):
    def __init__(self, items, limit=None):
        self.items = items
        self.i = 0
        self.left = limit

    def byte(self):
        if self.i >= len(self.items):
            raise SpecInsufficient()
        if self.left is not None:
            if self.left < 1:
                raise SpecInsufficient()
            self.left -= 1
        b = self.items[self.i]
        if isinstance(b, Blob):
            raise ValueError('spec decoder: header byte expected, payload found')
        self.i += 1
        return b

    def bytes(self, n):
        return [self.byte() for _ in range(n)]

    def payload(self, n):
        if n == 0 and (self.i >= len(self.items) or not isinstance(self.items[self.i], Blob)):
            return Blob(0, 'empty')
        if self.i >= len(self.items):
            raise SpecInsufficient()
        b = self.items[self.i]
        if not isinstance(b, Blob):
            raise ValueError('spec decoder: payload expected, header byte found')
        if self.left is not None:
            if self.left < n:
                raise SpecInsufficient()
            self.left -= n
        if b.n != n:
            if n > b.n:
                raise SpecInsufficient()
            raise ValueError('spec decoder: payload length mismatch')
        self.i += 1
        return b


def dec(cur, elem_limit=8):
    b = cur.byte()
    if b <= 0x7f:
        return b
    if b <= 0x8f:
        return _map(cur, b - 0x80, elem_limit)
    if b <= 0x9f:
        return _arr(cur, b - 0x90, elem_limit)
    if b <= 0xbf:
        return _str(cur, b - 0xa0)
    if b == 0xc0:
        return None
    if b == 0xc1:
        raise SpecReserved()
    if b == 0xc2:
        return False
    if b == 0xc3:
        return True
    if b == 0xc4:
        return cur.payload(from_be(cur.bytes(1), False))
    if b == 0xc5:
        return cur.payload(from_be(cur.bytes(2), False))
    if b == 0xc6:
        return cur.payload(from_be(cur.bytes(4), False))
    if b == 0xc7 or b == 0xc8 or b == 0xc9:
        n = from_be(cur.bytes(1 if b == 0xc7 else 2 if b == 0xc8 else 4), False)
        t = cur.byte()
        return SExt(t, cur.payload(n))
    if b == 0xca:
        return ('f32', from_be(cur.bytes(4), False))
    if b == 0xcb:
        return Dbl(from_be(cur.bytes(8), False))
    if b == 0xcc:
        return from_be(cur.bytes(1), False)
    if b == 0xcd:
        return from_be(cur.bytes(2), False)
    if b == 0xce:
        return from_be(cur.bytes(4), False)
    if b == 0xcf:
        return from_be(cur.bytes(8), False)
    if b == 0xd0:
        return from_be(cur.bytes(1), True)
    if b == 0xd1:
        return from_be(cur.bytes(2), True)
    if b == 0xd2:
        return from_be(cur.bytes(4), True)
    if b == 0xd3:
        return from_be(cur.bytes(8), True)
    if 0xd4 <= b <= 0xd8:
        n = 1 if b == 0xd4 else 2 if b == 0xd5 else 4 if b == 0xd6 else 8 if b == 0xd7 else 16
        t = cur.byte()
        return SExt(t, cur.payload(n))
    if b == 0xd9:
        return _str(cur, from_be(cur.bytes(1), False))
    if b == 0xda:
        return _str(cur, from_be(cur.bytes(2), False))
    if b == 0xdb:
        return _str(cur, from_be(cur.bytes(4), False))
    if b == 0xdc:
        return _arr(cur, from_be(cur.bytes(2), False), elem_limit)
    if b == 0xdd:
        return _arr(cur, from_be(cur.bytes(4), False), elem_limit)
    if b == 0xde:
        return _map(cur, from_be(cur.bytes(2), False), elem_limit)
    if b == 0xdf:
        return _map(cur, from_be(cur.bytes(4), False), elem_limit)
    return b - 256      # negative fixint 0xe0..0xff


def _str(cur, n):
    p = cur.payload(n)
    return ('str', p)


class Counted(object):
    """array/map whose elements were not decoded (count beyond elem_limit or summarised)"""

    def __init__(self, kind, n):
        self.kind, self.n = kind, n


def _arr(cur, n, elem_limit):
    if n > elem_limit:
        return Counted('array', n)
    return [dec(cur, elem_limit) for _ in range(n)]


def _map(cur, n, elem_limit):
    if n > elem_limit:
        return Counted('map', n)
    out = []
    for _ in range(n):
        k = dec(cur, elem_limit)
        v = dec(cur, elem_limit)
        out.append((k, v))
    return ('map', out)


def same(model, decoded):
    """is `decoded` (spec decoder output) the model value?"""
    if isinstance(model, SStr):
        return isinstance(decoded, tuple) and decoded[0] == 'str' and decoded[1] is model.blob
    if isinstance(model, Blob):
        return decoded is model
    if isinstance(model, Dbl):
        return isinstance(decoded, Dbl) and decoded.bits == model.bits
    if model is None or model is True or model is False:
        return decoded is model
    if isinstance(model, int):
        return isinstance(decoded, int) and not isinstance(decoded, bool) and decoded == model
    if isinstance(model, (list, tuple)):
        return isinstance(decoded, list) and len(decoded) == len(model) and \
            all(same(a, b) for a, b in zip(model, decoded))
    if isinstance(model, dict):
        if not (isinstance(decoded, tuple) and decoded[0] == 'map' and len(decoded[1]) == len(model)):
            return False
        return all(same(k, dk) and same(v, dv) for (k, v), (dk, dv) in zip(model.items(), decoded[1]))
    if isinstance(model, SExt) or hasattr(model, 'data'):
        return isinstance(decoded, SExt) and decoded.type == model.type and decoded.data is model.data
    return False
