"""Run CrossHair on harness functions of one module, in-process, and print one JSON line per
function.  usage: python -m vlib.chdriver MODULE.py TIMEOUT PER_PATH FUNC [FUNC ...]

status values:
  confirmed   every path explored, postcondition true on all (solver: no model of the negation)
  refuted     counterexample; 'call' holds the concrete call CrossHair printed
  unknown     not confirmed within the budget (timeout / realisation / unknown sat)  -> inconclusive
  pre_unsat   no path got through the precondition                                 -> inconclusive
  error       harness could not be analysed
"""
import importlib.util
import json
import os
import sys
import time


def main():
    path, timeout, per_path = sys.argv[1], float(sys.argv[2]), float(sys.argv[3])
    funcs = sys.argv[4:]
    sys.path.insert(0, os.path.dirname(os.path.dirname(os.path.abspath(__file__))))
    sys.path.insert(0, os.path.dirname(os.path.abspath(path)))
    spec = importlib.util.spec_from_file_location(os.path.basename(path)[:-3], path)
    mod = importlib.util.module_from_spec(spec)
    sys.modules[spec.name] = mod
    spec.loader.exec_module(mod)

    from crosshair.core_and_libs import analyze_function, run_checkables, MessageType
    from crosshair.options import AnalysisOptionSet

    opts = AnalysisOptionSet(per_condition_timeout=timeout, per_path_timeout=per_path,
                             report_all=True, max_uninteresting_iterations=10**9)
    for fn in funcs:
        f = getattr(mod, fn)
        counter = getattr(mod, 'PATHS', None)
        if counter is not None:
            counter[0] = 0
        t0 = time.process_time()
        w0 = time.time()
        out = {'func': fn}
        try:
            msgs = run_checkables(analyze_function(f, opts))
        except BaseException as e:  # noqa
            out.update(status='error', message='%s: %s' % (type(e).__name__, e))
        else:
            if not msgs:
                out.update(status='error', message='no checkable condition')
            else:
                worst = max(msgs, key=lambda m: m.state)
                st = worst.state
                if st == MessageType.CONFIRMED:
                    out.update(status='confirmed')
                elif st == MessageType.CANNOT_CONFIRM:
                    out.update(status='unknown', message=worst.message)
                elif st == MessageType.PRE_UNSAT:
                    out.update(status='pre_unsat', message=worst.message)
                elif st in (MessageType.POST_FAIL, MessageType.EXEC_ERR, MessageType.POST_ERR):
                    out.update(status='refuted', message=worst.message)
                else:
                    out.update(status='error', message='%s: %s' % (st, worst.message))
        out['cpu_s'] = round(time.process_time() - t0, 3)
        out['wall_s'] = round(time.time() - w0, 3)
        if counter is not None:
            out['paths'] = counter[0]
        print('@@RESULT ' + json.dumps(out), flush=True)


if __name__ == '__main__':
    main()
