"""C13 layout model: a layout-only printer over the canonical one-statement-per-line rendering, and the
derivation of every AST node position as an affine function of the numeric layout parameters (validated
against the real parser).

flags (structure of the layout, enumerated): per eligible line  'join' (appended to the previous simple
statement with '; '), 'oneline' (single simple body statement moved onto its header line),
'break' (a parenthesised tuple expression broken after the opening bracket), 'cbreak' (broken after the first comma
inside a bracket).
nums (symbolic in the harness): blank/comment lines before each physical line (0..2), indentation width
(1..8), continuation indent of broken brackets (0..8), extra spaces after 'join'/'oneline' separators (0..2).
"""
import ast
import re

# a bracket after which the line may be broken: a parenthesised value or the arguments of a call
BREAK = re.compile(r'(?:=\s|print|\bin\s|if\s|while\s)\((?=[\w(])')
# a comma inside a bracket after which the line may be broken as well (the rest of the value moves down)
CBREAK = re.compile(r'(?<=[\w)\]]),\s(?=[\w(\[])')
HEADER = re.compile(r'^\s*(if|elif|else|for|while|try|except|finally|with|def|class|async)\b.*:\s*$')


def indent_of(line):
    return (len(line) - len(line.lstrip(' '))) // 4


def is_header(line):
    return bool(HEADER.match(line)) or line.lstrip().startswith('@')


def eligible(lines):
    """-> list of (kind, line index) flags that may be switched on"""
    out = []
    for i, ln in enumerate(lines):
        if i == 0:
            continue
        prev = lines[i - 1]
        if not is_header(ln) and not is_header(prev) and indent_of(ln) == indent_of(prev):
            out.append(('join', i))
        if not is_header(ln) and is_header(prev) and not prev.lstrip().startswith('@') and \
                indent_of(ln) == indent_of(prev) + 1 and \
                (i + 1 >= len(lines) or indent_of(lines[i + 1]) <= indent_of(prev) or not is_header(lines[i + 1])):
            # the body may continue with ';'-joined simple statements only
            j = i + 1
            ok = True
            while j < len(lines) and indent_of(lines[j]) > indent_of(prev):
                if is_header(lines[j]) or indent_of(lines[j]) != indent_of(ln):
                    ok = False
                j += 1
            if ok:
                out.append(('oneline', i))
    for i, ln in enumerate(lines):
        if ln.lstrip().startswith(('def ', 'class ', '@', 'with ', 'async ')):
            continue
        if BREAK.search(ln):
            out.append(('break', i))
        m = cbreak_at(ln.strip())
        if m is not None:
            out.append(('cbreak', i))
    return out


def cbreak_at(body):
    """offset after the first comma that sits inside a bracket opened on this line, or None"""
    for m in CBREAK.finditer(body):
        head = body[:m.start()]
        if head.count('(') + head.count('[') > head.count(')') + head.count(']'):
            return m.end()
    return None


def apply(lines, on, nums):
    """on: set of (kind, index) flags; nums: dict with keys ('blank', k) per physical line k, 'width',
    'cont', ('gap', index).  Returns the relaid text."""
    W = nums.get('width', 4)
    cont = nums.get('cont', 4)
    phys = []           # list of [indent level, text, continuation text or None]
    oneline_active = {}
    for i, ln in enumerate(lines):
        body = ln.strip()
        lvl = indent_of(ln)
        brk = None
        pts = []
        if ('break', i) in on:
            pts.append(BREAK.search(body).end())
        if ('cbreak', i) in on:
            pts.append(cbreak_at(body))
        pts = sorted(set(pts))
        if pts:
            segs = [body[a:b] for a, b in zip([0] + pts, pts + [len(body)])]
            body, brk = segs[0], [x for x in segs[1:] if x != '']
            if not brk:
                brk = None
        if ('oneline', i) in on:
            gap = ' ' * (1 + nums.get(('gap', i), 0))
            _append(phys[-1], gap + body, brk)
            oneline_active[lvl] = True
            continue
        if ('join', i) in on:
            if ('oneline', i) not in on and phys:
                # joined to the previous statement: after its last physical line if that one was broken
                gap = ' ' * (1 + nums.get(('gap', i), 0))
                _append(phys[-1], ';' + gap + body, brk)
                continue
        phys.append([lvl, body, brk])
    out = []
    k = 0
    for lvl, body, brk in phys:
        for _ in range(nums.get(('blank', k), 0)):
            out.append('# c' if _ % 2 else '')
        # a one-lined header keeps its own indent level
        out.append(' ' * (W * lvl) + body)
        for seg in brk or ():
            out.append(' ' * cont + seg)
        k += 1
    return '\n'.join(out) + '\n', len(phys)


def _append(entry, text, brk):
    """continue the last physical line of a statement entry [level, first line, continuation lines or None]"""
    if entry[2]:
        entry[2][-1] += text
        if brk:
            entry[2].extend(brk)
    else:
        entry[1] += text
        entry[2] = brk


def positions(text):
    tree = ast.parse(text)
    return [(n.lineno, n.col_offset) for n in ast.walk(tree) if hasattr(n, 'lineno')], tree


def structure(tree):
    return ast.dump(tree, include_attributes=False)


NUM_RANGES = {'width': (1, 8), 'cont': (0, 8)}


def num_keys(lines, on):
    text, nphys = apply(lines, on, {})
    keys = [('blank', k) for k in range(nphys)] + ['width']
    if any(f[0] in ('break', 'cbreak') for f in on):
        keys.append('cont')
    keys += [('gap', f[1]) for f in sorted(on) if f[0] in ('join', 'oneline')]
    return keys


def rng(key):
    if key == 'width':
        return (1, 8)
    if key == 'cont':
        return (0, 8)
    if key[0] == 'blank':
        return (0, 2)
    return (0, 2)


def affine(lines, on, canon_structure):
    """base positions and per-parameter deltas for the flag set `on`, or None if the relaid text does not
    parse to the canonical structure (then the flag set is not a layout of this program).
    The 'width' parameter is measured from its minimum 1."""
    keys = num_keys(lines, on)
    base_nums = {k: rng(k)[0] for k in keys}
    try:
        text, _ = apply(lines, on, base_nums)
        base, tree = positions(text)
    except SyntaxError:
        return None
    if structure(tree) != canon_structure:
        return None
    deltas = {}
    for k in keys:
        n2 = dict(base_nums)
        n2[k] = base_nums[k] + 1
        p2, t2 = positions(apply(lines, on, n2)[0])
        if structure(t2) != canon_structure or len(p2) != len(base):
            return None
        deltas[k] = [(a[0] - b[0], a[1] - b[1]) for a, b in zip(p2, base)]
    return keys, base_nums, base, deltas


def predict(aff, nums):
    keys, base_nums, base, deltas = aff
    out = []
    for i, (l, c) in enumerate(base):
        for k in keys:
            d = nums[k] - base_nums[k]
            l = l + deltas[k][i][0] * d
            c = c + deltas[k][i][1] * d
        out.append((l, c))
    return out


def check_affine(lines, on, aff, nums):
    """printer validation: predicted positions == what the real parser reports for the relaid text"""
    text, _ = apply(lines, on, nums)
    real, tree = positions(text)
    return real == predict(aff, nums), text
