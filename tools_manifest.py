#!/usr/bin/env python3
"""Regenerates MANIFEST.json from the table below (keeps it valid and in sync)."""
import json, os
HERE = os.path.dirname(os.path.abspath(__file__))
props = [json.loads(l) for l in open(os.path.join(HERE, 'properties.jsonl'))]
ALL = [p['id'] for p in props]

CHECKS = {
 'C14': dict(cat='model_checking', tech='CrossHair/z3 symbolic execution of the real umsgpack encoder+decoder (modelled struct, opaque payloads) vs a spec encoder/decoder; all ints, all lengths < 2^32, all 256 first bytes, symbolic cut points',
             text='Bounded symbolic execution: every query is a postcondition over symbolic integers / lengths / bytes through the real pack/unpack code; "confirmed" means CrossHair exhausted every path with z3 finding no model of the negation. Integers and lengths are unbounded symbolic (whole ranges, not boundary samples); element loops are unrolled to 3 array elements / 2 map entries and 6 nested skeletons.',
             note='struct replaced by a pure-Python model validated against the real struct every run; payload contents opaque (UTF-8 validity, payload bytes outside the claim); reserved (negative) ext types outside the value model; oracle = vlib/msgspec.py written from the MessagePack spec.',
             ref='3/C14'),
}
CHECKS['C16'] = dict(cat='model_checking', engine='z3-bmc',
    tech='z3 (QF_BV) bounded model checking with a symbolic schedule + inductive-invariant proof, over a line-level transition system regenerated from the AST of supp/remote.py; counterexample schedules replayed on real threads',
    text='For each scenario of up to 3 client threads (prepare / first call / close sequences) the schedule is a vector of solver variables; unsat at bound = instruction count means no line-level interleaving violates one-launch / no-exception / all-answered / no-deadlock. An inductive check (Init=>R, R&T=>R, R&final=>safe) with the explicitly enumerated reachable set as candidate invariant gives the same verdict without a bound. Server side: CrossHair over the real Server.run with scripted messages. Launch handshake: CrossHair over the real Environment._run with scripted connection failures and a symbolic non-decreasing clock (retry before the deadline, launch-timeout exception after it, one process).',
    note='in the interleaving model _run is summarised by its Popen/Client assignments (both succeed at once; the retry loop is checked sequentially in the launch-handshake queries); opaque argument expressions evaluated concretely; line granularity; close() racing a call on another thread is outside; translation validated each run by explicit enumeration and by replaying schedules on real threads with a settrace scheduler; real subprocess/socket behaviour outside.',
    ref='3/C16')
_T_NOTE = ('program shapes enumerated (parser is C); supp dict/set displays rewritten to equality-only containers so identifiers stay symbolic; UndefinedName/find_id_loc/builtin table stubbed; reference semantics validated against real CPython each run; candidates replayed on real text with the untransformed supp. Imports, match, del, stdlib corpus outside.')
for _p, _t in (('C01', 'reads that succeed in some CPython execution are visible (flow attached, name in names_at)'),
               ('C02', 'bindings a read can obtain at run time are among the alternatives supp lists'),
               ('C03', 'no phantom alternatives; possibly-undefined marker exact; never-bound names absent'),
               ('C05', 'Name.scope of every alternative is the scope CPython binds/reads the name in')):
    CHECKS[_p] = dict(cat='other',
        tech='CrossHair/z3 symbolic execution of the real extractor and Flow.names_at with symbolic identifier strings (one path per equality pattern), reference = definitional interpreter exhaustive over execution decisions',
        text='Bounded symbolic execution of the real analysis over an enumerated family of program shapes: ' + _t + '. Per shape the identifiers are solver variables; "confirmed" = every equality pattern of the identifiers (Bell(n) paths) explored with no counterexample; the claim covers all identifier strings of the fixed length, not a sample alphabet.',
        note=_T_NOTE, ref='3/' + _p)
CHECKS['C04'] = dict(cat='other',
    tech='CrossHair/z3: one shared analysis state queried in a solver-chosen order of its read sites, symbolic identifiers, differential against a fresh state per read',
    text='Bounded symbolic execution of the real extractor/Flow memoisation: for every shape (loops, nested branches), every permutation of the read sites as query history (solver variable, enumerated) and every equality pattern of symbolic identifiers, each read yields the same alternatives as on a fresh analysis; plus lint-vs-fresh-query agreement through the public API on canonical namings; solver-enumerated request histories on one long-lived Project (attribute, relative-import, recursive-factory and star-cycle requests) vs a new project; lint verdict vs the same position queried alone on 110 programs with several reads per physical line.',
    note=_T_NOTE + ' Query history is a finite selector (E); histories with file edits are C09.', ref='3/C04')
CHECKS['C17'] = dict(cat='other',
    tech='CrossHair/z3: set iteration order of identity-hashed objects as solver-chosen permutation (rebound `set` in supp.name/scope/evaluator/assistant/project/linter), real location()/exported names compared with the insertion-order run',
    text='Solver-enumerated (E): every iteration order of the sets built while resolving a multiply-bound name (6^3 orders per request, 13 requests incl. cross-module access, a qualified import held by a cached module and a module present in several roots) gives the same result, also when the request is repeated on one project, with alternatives in source order and the first configured root winning. This replaces fresh-process/hash-seed runs, which are outside the technique.',
    note='`set` rebound to a subclass with harness-chosen iteration order; dict order and os.listdir order not varied; each path is one concrete run.', ref='3/C17')
CHECKS['C13'] = dict(cat='other',
    tech='CrossHair/z3: every AST node position is a symbolic affine expression of layout parameters (derived from and validated against the real parser); real extractor / bisect / Location comparisons run on symbolic positions; differential against the canonical layout',
    text='Bounded symbolic execution: for each shape, naming and layout structure (enumerated), the numeric layout parameters (blank/comment lines, indentation width, continuation indent, extra spaces) are solver variables; every read must resolve to the same alternatives as in the one-statement-per-line layout for all parameter values. Sampled concrete layouts are additionally pushed through real lint (codes and messages in order). Companion (E): go-to-definition into another project module under 1680 layouts of the edited file.',
    note='layout structures (which statements are joined - also behind a broken line - / one-lined / broken after an opening bracket or a comma) enumerated; positions from an affine model validated against ast.parse each run; find_id_loc stubbed (C11); identifiers concrete.', ref='3/C13')
CHECKS['C12'] = dict(cat='other',
    tech='CrossHair/z3: (a) real assist() on a symbolic line left of the cursor (all strings up to the bound, all of Unicode) vs longest-identifier-suffix reference; (a2) solver-enumerated concrete lines over ASCII and non-ASCII identifier characters; (b,c) solver-enumerated cursor positions through real assist() vs the unmarked analysis',
    text='(a) is genuinely symbolic: the text left of the cursor is a solver variable and the whole of assist() runs on it; confirmed = no string of the bounded length yields a prefix other than the identifier characters left of the cursor. (b),(c) are solver-enumerated over a program family: every offset inside/at the end of every name read, attribute and import name gives the exact prefix, sorted duplicate-free marker-free proposals, equal to what the analysis of the unmarked source makes visible.',
    note='(a) Source replaced by a harness object (symbolic line, empty tree), project stubbed; (b,c) each path is one concrete run; real-file corpus outside.', ref='3/C12')
CHECKS['C08'] = dict(cat='other',
    tech='CrossHair/z3 solver-enumerated (program, typing-state mutation, cursor) over adversarial and family programs through the real lint/assist/location; oracle real compile()',
    text='Solver-enumerated (E) only: each path is one concrete (text, cursor). Within the stated finite domain every case is covered: lint returns a list with exactly one E01 carrying CPython message/position iff compile() fails; assist and location return well-formed results and raise only SyntaxError and only when the cursor-marked text does not compile; RecursionError counts as a violation.',
    note='No symbolic variable survives the parser, so this is no stronger than exhausting the finite domain (about 110 programs x 5 mutations x all cursors in the first 9 lines/40 columns); stdlib/real-file corpus outside the technique; non-termination only observable as timeout.', ref='3/C08')
CHECKS['C11'] = dict(cat='other',
    tech='CrossHair/z3: def/class header lines built from a symbolic identifier and spacing through the real find_def_loc/FuncScope/ClassScope (S); import statements and whole programs solver-enumerated (E)',
    text='(S) the identifier in a def / async def / class header is a solver variable (letters that collide with the header keywords), the reported position must be where the identifier was put; (E) nine import forms over colliding identifiers, and every binding of ~200 programs (comments and continuations next to names, form feed, cross-module and self-import programs): text at the reported position is the identifier, lint/location/all_names agree.',
    note='Source.lines pre-filled from symbolic pieces, template AST node; symbolic-container transform; ASCII; real-file corpus outside.', ref='3/C11')
CHECKS['C07'] = dict(cat='other',
    tech='CrossHair/z3 over the real Project.norm_package/get_module/list_packages with a symbolic in-memory file system (solver variables decide which files exist), vs real importlib.util.resolve_name and a PathFinder model validated against real importlib',
    text='Bounded symbolic execution: the number of leading dots, which directories are packages, which module/package/extension files exist in two source roots and the root order are solver variables; a path forks only on the os.path.exists calls actually made. Relative names resolve exactly as importlib.util.resolve_name (real function, same path); get_module picks the file the import system would load and raises ImportError exactly when nothing is found; sub-package listings equal what pkgutil can enumerate.',
    note='file system stubbed in memory, sys.path not consulted, __import__ of extension modules faked; PathFinder/pkgutil model validated on materialised trees each run; outside: namespace packages, same-name module+package or source+extension in one directory, .pyc-only, zip, builtin/frozen.', ref='3/C07')
CHECKS['C09'] = dict(cat='other',
    tech='CrossHair/z3 over the real Project/SourceModule cache logic with symbolic modification times and an in-memory file system; differential: long-lived project under check_changes() vs a fresh Project',
    text='Bounded symbolic execution: histories of 1..2 rewrites (file and content variant enumerated) over a project a -> b -> c plus a package module pk.d with star-import / attribute / from-import / re-export edges, warm-up requests in between; the modification times are solver integers constrained only by "an edit changes the mtime" (backwards and repeating clocks included). Every final request (9 kinds: assist, location, lint through the importers, on the changed module itself, package listing) must equal the same request on a new Project. Candidates are replayed on a real directory with os.utime.',
    note='file access stubbed in memory; ast.parse/extract run untraced; deletions, __init__ removal, shadowing outside; one known finding (module created after its importer was analysed) is carved out of the query by its history shape.', ref='3/C09')
CHECKS['C06'] = dict(cat='other',
    tech='CrossHair/z3 solver-enumerated class hierarchies (shape, member kinds and names, import form, queried attribute, access path) through the real assist()/location(); oracle = the classes executed by CPython (__mro__, vars())',
    text='Solver-enumerated (E) only: each path is one concrete generated project. Split forms are also asked on a project that has already answered through the other access path; descriptor chains (property, own or inherited __get__) are followed to what the method returns. Within the stated finite family the attribute proposals contain every source-defined attribute along the real MRO (and self-assigned attributes for instances), and go-to-definition lands on an instance assignment if there is one, otherwise on the first class of the real MRO that defines the attribute.',
    note='no symbolic variable survives the parser; in-memory project files; metaclasses, __getattr__, __slots__, setattr, data-descriptor precedence outside.', ref='3/C06')
CHECKS['C10'] = dict(cat='other',
    tech='CrossHair/z3 solver-enumerated (scope kind, binding kind, name shape, read flag) constructions through the real lint(); oracle = the exemption rule of the property evaluated on the construction',
    text='Solver-enumerated (E) only: ~1380 constructed modules covering 27 binding kinds x 6 scope kinds x name shape x read/never-read x locals() companion (none / unrelated function / nested function calling locals()), plus a symbolic-identifier companion (S); the W01/W02 entries (code, message, line, column) must equal exactly what the rule gives and nothing else may be reported as unused.',
    note='each path one concrete module; a locals() call in the binding\'s own scope, global/nonlocal redirection and real files outside.', ref='3/C10')
CHECKS['C15'] = dict(cat='other',
    tech='CrossHair/z3 solver-enumerated request scripts through the real Environment methods, real Server.run/process and real umsgpack over an in-memory connection; oracle = in-process API',
    text='Solver-enumerated (E) only: all scripts of 1..2 requests and a slice of the 3-request scripts over 16 request kinds (valid and failing, incl. tuple/list subclasses in arguments and results), and 360 histories with a failing request and a file edit in either order: each reply equals the in-process result on a new project over the same files (tuples as lists), each failure surfaces as an exception carrying the server message, later replies are unaffected and the server loop keeps accepting.',
    note='in-memory connection pair, Server.run driven one message at a time; real subprocess / sockets / OS failures / multi-MiB payloads outside (payload sizes: C14).', ref='3/C15')
NA = {}

def main():
    checks = []
    for pid in ALL:
        if pid not in CHECKS:
            continue
        c = CHECKS[pid]
        checks.append({
            'property_id': pid,
            'quick_cmd': './check %s --tier quick' % pid,
            'thorough_cmd': './check %s --tier thorough' % pid,
            'evidence_file': 'evidence/%s.json' % pid,
            'replay_cmd_template': './check %s --replay {path}' % pid,
            'engine': c.get('engine', 'crosshair'),
            'level_claimed': {'category': c['cat'], 'text': c['text'], 'design_ref': 'DESIGN.md section ' + c['ref']},
            'level_note': c['note'],
            'technique': c['tech'],
        })
    na = [{'property_id': pid, 'reason': NA.get(pid, 'check not built yet in this session (see DESIGN.md section 7 for the order of work)')}
          for pid in ALL if pid not in CHECKS]
    m = {
        'version': 1,
        'setup_cmd': '/venv/bin/python vlib/bootstrap.py',
        'hooks': {'guard': 'SUPP_VERIF', 'enable': 'no hooks: stubs are injected from outside by rebinding module globals',
                  'baseline_off_cmd': 'cd /repo && /venv/bin/python -m pytest -q -p no:cacheprovider --timeout=900',
                  'source_commits': [], 'add_only': True},
        'engines': [
            {'name': 'crosshair', 'path': 'vlib/chdriver.py', 'serves_properties': [p for p in CHECKS if CHECKS[p].get('engine', 'crosshair') == 'crosshair'],
             'kind_free_text': 'crosshair-tool 0.0.110 + z3-solver 5.1.0: per-path symbolic execution of the real Python functions'},
            {'name': 'z3-bmc', 'path': 'vlib/bmc_remote.py', 'serves_properties': [p for p in CHECKS if CHECKS[p].get('engine') == 'z3-bmc'],
             'kind_free_text': 'z3 bounded model checking of a transition system regenerated from supp/remote.py'},
        ],
        'checks': checks,
        'not_applicable': na,
        'notes': 'Solver-based checking of the real code; see DESIGN.md. Exit 3 = harness error (never a verdict).',
    }
    json.dump(m, open(os.path.join(HERE, 'MANIFEST.json'), 'w'), indent=1)

main()
